"""Reachability evidence via sys.monitoring (3.12): entries and executed lines of the
functions a property is anchored in. Anchors are resolved by name at run time, so edits to
/repo never stale them. LINE callbacks disable themselves after the first hit."""
from __future__ import annotations

import importlib
import sys

TOOL = 4  # a free tool id (0 debugger, 1 coverage, 2 profiler, 5 optimizer are reserved names)


def _resolve(spec: str):
    modname, qual = spec.split(":")
    obj = importlib.import_module(modname)
    for part in qual.split("."):
        obj = getattr(obj, part)
    seen = 0
    while not hasattr(obj, "__code__") and seen < 8:
        seen += 1
        for attr in ("__wrapped__", "_fun", "fun", "func", "__func__"):
            if hasattr(obj, attr):
                obj = getattr(obj, attr)
                break
        else:
            break
    return getattr(obj, "__code__", None)


class Reach:
    def __init__(self, anchors):
        self.anchors = list(anchors)
        self.codes = {}
        self.entries = {}
        self.lines = {}
        self.armed = False

    def arm(self):
        if not self.anchors or not hasattr(sys, "monitoring"):
            return
        mon = sys.monitoring
        try:
            mon.use_tool_id(TOOL, "vmon-reach")
        except ValueError:
            return
        for spec in self.anchors:
            try:
                code = _resolve(spec)
            except Exception:
                code = None
            if code is None:
                self.entries[spec] = -1
                continue
            self.codes[code] = spec
            self.entries[spec] = 0
            self.lines[spec] = set()
            mon.set_local_events(TOOL, code, mon.events.PY_START | mon.events.LINE)

        def on_start(code, off):
            spec = self.codes.get(code)
            if spec is not None:
                self.entries[spec] += 1

        def on_line(code, line):
            spec = self.codes.get(code)
            if spec is not None:
                self.lines[spec].add(line - code.co_firstlineno)
            return mon.DISABLE

        mon.register_callback(TOOL, mon.events.PY_START, on_start)
        mon.register_callback(TOOL, mon.events.LINE, on_line)
        self.armed = True

    def report(self):
        return {
            spec: {"entries": n, "lines": sorted(self.lines.get(spec, ()))}
            for spec, n in self.entries.items()
        }


class LineMap:
    """Whole-library line coverage under the monitors (diagnostic, armed only when VMON_COVMAP names a directory): every
    first execution of a line of a ginjax source file is recorded, the location is then disabled, so the cost is one
    callback per distinct line. Used by tools/covmap.py to list the library code no monitored workload ever ran."""

    TOOL = 3

    def __init__(self, root):
        self.root = root
        self.hit = {}
        self.armed = False

    def arm(self):
        if not hasattr(sys, "monitoring"):
            return
        mon = sys.monitoring
        try:
            mon.use_tool_id(self.TOOL, "vmon-linemap")
        except ValueError:
            return
        root = self.root

        def on_line(code, line):
            fn = code.co_filename
            if fn.startswith(root):
                self.hit.setdefault(fn[len(root):].lstrip("/"), set()).add(line)
            return mon.DISABLE

        mon.register_callback(self.TOOL, mon.events.LINE, on_line)
        mon.set_events(self.TOOL, mon.events.LINE)
        self.armed = True

    def report(self):
        return {f: sorted(v) for f, v in self.hit.items()}


class ArgMap:
    """Which optional parameters of the library's functions did the monitored workloads ever set? (diagnostic, armed only when
    VMON_ARGMAP names a directory.) On every entry of a ginjax function that has parameters with defaults, the values bound in
    the new frame are compared with the defaults; a parameter that never receives a non-default value under any workload is an
    option the monitors have never seen in use. Each code object is sampled for at most CAP entries."""

    TOOL = 2
    CAP = 400

    def __init__(self, root):
        self.root = root
        self.defaults = {}  # code -> (qualified name, {param: default})
        self.seen = {}  # qualified name -> {"calls": n, "params": {param: [n_nondefault, sample repr]}}
        self.armed = False

    def _collect(self):
        import inspect

        for name, mod in list(sys.modules.items()):
            if mod is None or not name.startswith("ginjax"):
                continue
            for attr, obj in list(vars(mod).items()):
                objs = [(attr, obj)]
                if inspect.isclass(obj) and getattr(obj, "__module__", "").startswith("ginjax"):
                    objs = [(f"{attr}.{a}", o) for a, o in vars(obj).items()]
                for qn, o in objs:
                    if isinstance(o, (staticmethod, classmethod)):
                        o = o.__func__
                    hops = 0
                    while not hasattr(o, "__code__") and hops < 8:
                        hops += 1
                        for a in ("__wrapped__", "_fun", "fun", "func", "__func__"):
                            if hasattr(o, a):
                                o = getattr(o, a)
                                break
                        else:
                            break
                    code = getattr(o, "__code__", None)
                    if code is None or not code.co_filename.startswith(self.root) or code in self.defaults:
                        continue
                    try:
                        sig = inspect.signature(o)
                    except (TypeError, ValueError):
                        continue
                    d = {p.name: p.default for p in sig.parameters.values() if p.default is not inspect.Parameter.empty}
                    if d:
                        self.defaults[code] = (f"{code.co_filename[len(self.root):].lstrip('/')}:{qn}", d)

    @staticmethod
    def _differs(v, d):
        if v is d:
            return False
        if d is None or v is None:
            return True
        if isinstance(d, (bool, int, float, str, tuple)) and isinstance(v, (bool, int, float, str, tuple)):
            try:
                return not (type(v) is type(d) and v == d) and not (not isinstance(d, bool) and not isinstance(v, bool) and isinstance(d, (int, float)) and isinstance(v, (int, float)) and v == d)
            except Exception:
                return True
        return True

    def arm(self):
        if not hasattr(sys, "monitoring"):
            return
        mon = sys.monitoring
        try:
            mon.use_tool_id(self.TOOL, "vmon-argmap")
        except ValueError:
            return
        self._collect()

        def on_start(code, off):
            ent = self.defaults.get(code)
            if ent is None:
                return mon.DISABLE
            qn, d = ent
            rec = self.seen.setdefault(qn, {"calls": 0, "params": {p: [0, None] for p in d}})
            rec["calls"] += 1
            fr = sys._getframe(1)
            loc = fr.f_locals
            for p, dv in d.items():
                if p in loc and self._differs(loc[p], dv):
                    slot = rec["params"][p]
                    slot[0] += 1
                    if slot[1] is None:
                        slot[1] = repr(loc[p])[:60]
            if rec["calls"] >= self.CAP:
                return mon.DISABLE

        mon.register_callback(self.TOOL, mon.events.PY_START, on_start)
        for code in self.defaults:
            mon.set_local_events(self.TOOL, code, mon.events.PY_START)
        self.armed = True

    def report(self):
        out = {qn: {"calls": 0, "params": {p: [0, None] for p in d}} for qn, d in self.defaults.values()}
        out.update(self.seen)
        return out
