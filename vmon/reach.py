"""Reachability evidence via sys.monitoring (3.12): entries and executed lines of the
functions a property is anchored in. Anchors are resolved by name at run time, so edits to
/repo never stale them. LINE callbacks disable themselves after the first hit."""
from __future__ import annotations

import importlib
import sys

TOOL = 4  # a free tool id (0 debugger, 1 coverage, 2 profiler, 5 optimizer are reserved names)


def _resolve(spec: str):
    modname, qual = spec.split(":")
    obj = importlib.import_module(modname)
    for part in qual.split("."):
        obj = getattr(obj, part)
    seen = 0
    while not hasattr(obj, "__code__") and seen < 8:
        seen += 1
        for attr in ("__wrapped__", "_fun", "fun", "func", "__func__"):
            if hasattr(obj, attr):
                obj = getattr(obj, attr)
                break
        else:
            break
    return getattr(obj, "__code__", None)


class Reach:
    def __init__(self, anchors):
        self.anchors = list(anchors)
        self.codes = {}
        self.entries = {}
        self.lines = {}
        self.armed = False

    def arm(self):
        if not self.anchors or not hasattr(sys, "monitoring"):
            return
        mon = sys.monitoring
        try:
            mon.use_tool_id(TOOL, "vmon-reach")
        except ValueError:
            return
        for spec in self.anchors:
            try:
                code = _resolve(spec)
            except Exception:
                code = None
            if code is None:
                self.entries[spec] = -1
                continue
            self.codes[code] = spec
            self.entries[spec] = 0
            self.lines[spec] = set()
            mon.set_local_events(TOOL, code, mon.events.PY_START | mon.events.LINE)

        def on_start(code, off):
            spec = self.codes.get(code)
            if spec is not None:
                self.entries[spec] += 1

        def on_line(code, line):
            spec = self.codes.get(code)
            if spec is not None:
                self.lines[spec].add(line - code.co_firstlineno)
            return mon.DISABLE

        mon.register_callback(TOOL, mon.events.PY_START, on_start)
        mon.register_callback(TOOL, mon.events.LINE, on_line)
        self.armed = True

    def report(self):
        return {
            spec: {"entries": n, "lines": sorted(self.lines.get(spec, ()))}
            for spec, n in self.entries.items()
        }


class LineMap:
    """Whole-library line coverage under the monitors (diagnostic, armed only when VMON_COVMAP names a directory): every
    first execution of a line of a ginjax source file is recorded, the location is then disabled, so the cost is one
    callback per distinct line. Used by tools/covmap.py to list the library code no monitored workload ever ran."""

    TOOL = 3

    def __init__(self, root):
        self.root = root
        self.hit = {}
        self.armed = False

    def arm(self):
        if not hasattr(sys, "monitoring"):
            return
        mon = sys.monitoring
        try:
            mon.use_tool_id(self.TOOL, "vmon-linemap")
        except ValueError:
            return
        root = self.root

        def on_line(code, line):
            fn = code.co_filename
            if fn.startswith(root):
                self.hit.setdefault(fn[len(root):].lstrip("/"), set()).add(line)
            return mon.DISABLE

        mon.register_callback(self.TOOL, mon.events.LINE, on_line)
        mon.set_events(self.TOOL, mon.events.LINE)
        self.armed = True

    def report(self):
        return {f: sorted(v) for f, v in self.hit.items()}
