"""Runs selected files of the repository's own test-suite under the R-monitors (see pytest_plugin.py) and
returns a check-case result for one monitor."""
from __future__ import annotations

import glob
import json
import os
import shutil
import subprocess
import sys
import tempfile

from . import core

FILES = ["tests/test_functional_geometric_image.py", "tests/test_geometric_image.py", "tests/test_multi_image.py", "tests/test_props.py", "tests/test_misc.py"]
DESELECT = ["testConvSubimage", "testConvolveWithRandoms", "testUniqueInvariantFilters", "testGroup"]


def run_suite(monitor: str, files=None, procs=6, timeout=3000):
    files = files or FILES
    out = tempfile.mkdtemp(prefix="vmon_suite_")
    env = dict(os.environ)
    env["VMON_SUITE_OUT"] = out
    env["VMON_SUITE_MONITORS"] = monitor
    env["PYTHONPATH"] = f"{core.REPO}/src:{core.VERIF}"
    cmd = [sys.executable, "-m", "pytest", "-q", "-p", "no:cacheprovider", "-p", "vmon.pytest_plugin", "-n", str(procs), "--timeout=900", "-k", " and ".join(f"not {d}" for d in DESELECT)] + files
    try:
        r = subprocess.run(cmd, cwd=core.REPO, env=env, capture_output=True, text=True, timeout=timeout)
        tail = (r.stdout or "")[-400:]
        status = r.returncode
    except subprocess.TimeoutExpired:
        shutil.rmtree(out, ignore_errors=True)
        return {"status": "inconclusive", "key": f"suite-{monitor}", "nontrivial": False, "why": "repository-suite workload: watchdog fired"}
    checked, viols, nproc = {}, [], 0
    for fn in glob.glob(os.path.join(out, "suite_*.json")):
        rep = json.load(open(fn))
        m = rep["monitors"].get(monitor)
        if not m:
            continue
        nproc += 1
        for k, v in m["checked"].items():
            checked[k] = checked.get(k, 0) + v
        viols += m["violations"]
    shutil.rmtree(out, ignore_errors=True)
    total = sum(checked.values())
    if total == 0:
        return {"status": "inconclusive", "key": f"suite-{monitor}", "nontrivial": False, "why": f"repository-suite workload: no concrete monitored return (pytest exit {status}): {tail}"}
    res = {"status": "violated" if viols else "held", "key": f"repository-suite-under-{monitor}-monitor", "nontrivial": True, "evals": total,
           "obs": {f"suite_{monitor}_returns_checked": total, "suite_processes": nproc}, "hist": {"workload": "repository-suite"},
           "sample": {"workload": "repository test files under monitors", "files": files, "checked": checked, "pytest_exit": status}}
    if viols:
        seen, keep = set(), []
        for v in viols:
            if v["mechanism"] not in seen:
                seen.add(v["mechanism"])
                v = dict(v)
                v["msg"] = "[repository-suite workload] " + v["msg"]
                keep.append(v)
        res["viol"] = keep
    return res
