"""Worker: runs a shard of cases of one check inside one process with ginjax imported
from the current working tree of /repo (PYTHONPATH set by the driver)."""
from __future__ import annotations

import json
import os
import sys
import time
import traceback

VERIF = os.path.dirname(os.path.dirname(os.path.abspath(__file__)))
for deps in (os.path.join(VERIF, ".deps"), "/verif/.deps"):
    if os.path.isdir(deps):
        if deps not in sys.path:
            sys.path.append(deps)  # appended, never prepended
        break


def main():
    inp, outp = sys.argv[1], sys.argv[2]
    with open(inp) as f:
        job = json.load(f)
    prop, tier, seed = job["prop"], job["tier"], job["seed"]
    from vmon import core, reach

    mod = core.load_check(prop)
    out = open(outp, "w")

    def emit(d):
        out.write(json.dumps(core.jsonable(d)) + "\n")
        out.flush()

    ctx = {"tier": tier, "seed": seed, "prop": prop}
    meta = {"meta": True}
    try:
        import ginjax  # noqa: F401  (from the current tree)
        import ginjax.geometric, ginjax.ml, ginjax.models  # noqa: F401,E401  (ml before models: import cycle)

        src = os.path.dirname(os.path.abspath(ginjax.__file__))
        meta["ginjax_from"] = src
        want = os.path.realpath(os.path.join(core.REPO, "src", "ginjax"))
        if os.path.realpath(src) != want:
            raise RuntimeError(f"ginjax imported from {src}, expected {want}")
        rm = reach.Reach(getattr(mod, "ANCHORS", []))
        rm.arm()
        lm = None
        if os.environ.get("VMON_COVMAP"):
            lm = reach.LineMap(src)
            lm.arm()
        am = None
        if os.environ.get("VMON_ARGMAP"):
            am = reach.ArgMap(src)
            am.arm()
        if hasattr(mod, "setup"):
            st = mod.setup(ctx)
            if st:
                meta["selftest"] = st
    except Exception:
        emit({"meta": True, "fatal": traceback.format_exc()})
        print(traceback.format_exc())
        return 3

    # self-validation only (tools/mutants.py): stop early once any worker of the run has seen a violation; no registered
    # command sets VMON_FAILFAST
    ff = os.environ.get("VMON_FAILFAST")
    for case in job["cases"]:
        t0 = time.time()
        if ff and os.path.exists(ff):
            emit({"i": case["i"], "status": "inconclusive", "why": "fail-fast: another case of this run already violated", "key": f"ff-{case['i']}", "nontrivial": False, "evals": 0})
            continue
        try:
            r = mod.run(case, ctx)
        except Exception:
            r = {
                "status": "inconclusive",
                "why": "harness exception: " + traceback.format_exc()[-1800:],
                "key": f"exc-{case.get('i')}",
                "nontrivial": False,
            }
        from vmon import probes

        if probes.MUTATIONS:  # argument-write sanitizer (probes.py): a probed callee wrote into an operand of the harness
            m = probes.MUTATIONS[0]
            r.setdefault("viol", []).append({"mechanism": "callee-wrote-into-its-argument", "msg": f"{m['callee']} changed the contents of a NumPy array it was handed as an argument (shape {m['shape']}, {m['dtype']}); {len(probes.MUTATIONS)} such writes in this case", "witness": {"writes": probes.MUTATIONS[:5]}})
            if r.get("status") == "held":
                r["status"] = "violated"
            del probes.MUTATIONS[:]
        r["i"] = case["i"]
        r.setdefault("evals", 1)
        r["t"] = round(time.time() - t0, 3)
        emit(r)
        if ff and r.get("status") == "violated":
            open(ff, "w").close()
    meta["reach"] = rm.report()
    if lm is not None:
        os.makedirs(os.environ["VMON_COVMAP"], exist_ok=True)
        with open(os.path.join(os.environ["VMON_COVMAP"], f"{prop}_{tier}_{os.getpid()}.json"), "w") as f:
            json.dump(lm.report(), f)
    if am is not None:
        os.makedirs(os.environ["VMON_ARGMAP"], exist_ok=True)
        with open(os.path.join(os.environ["VMON_ARGMAP"], f"{prop}_{tier}_{os.getpid()}.json"), "w") as f:
            json.dump(am.report(), f)
    if hasattr(mod, "teardown"):
        meta.update(mod.teardown(ctx) or {})
    emit(meta)
    out.close()
    return 0


if __name__ == "__main__":
    sys.exit(main())
