"""Shared helpers: seeded rngs, comparison, verdict builders."""
from __future__ import annotations

import numpy as np

PROP_NO = {f"C{n:02d}": n for n in range(1, 21)}


def rng_for(seed: int, prop: str, i: int, salt: int = 0) -> np.random.Generator:
    return np.random.default_rng([int(seed), PROP_NO[prop], int(i), int(salt)])


def err_exact(a, b) -> float:
    """Relative-to-scale error for the integer-exact domain (slack 1e-4*max(1,|b|))."""
    a = np.asarray(a, dtype=np.float64)
    b = np.asarray(b, dtype=np.float64)
    if a.shape != b.shape:
        return float("inf")
    if a.size == 0:
        return 0.0
    if not np.all(np.isfinite(a)):
        return float("inf")
    return float(np.max(np.abs(a - b)) / max(1.0, float(np.max(np.abs(b)))))


def defect(a, b, scale_floor: float = 0.0, frac: float = 1e-2) -> float:
    """Trace-normalised defect: max|a-b| / max(||b||inf, frac*S), S = largest magnitude in the trace.
    (frac=1e-2: a block that is structurally zero carries float32 noise ~1e-7*S, which a floor of
    1e-3*S turned into a spurious 1e-4 'defect' on the unchanged tree.)"""
    a = np.asarray(a, dtype=np.float64)
    b = np.asarray(b, dtype=np.float64)
    if a.shape != b.shape:
        return float("inf")
    if a.size == 0:
        return 0.0
    if not np.all(np.isfinite(a)) or not np.all(np.isfinite(b)):
        return float("inf")
    den = max(float(np.max(np.abs(b))), frac * scale_floor, 1e-30)
    return float(np.max(np.abs(a - b)) / den)


def lattice(rng, shape, lo=-3, hi=3) -> np.ndarray:
    return rng.integers(lo, hi + 1, size=shape).astype(np.float32)


def viol(mechanism: str, msg: str, **witness) -> dict:
    return {"mechanism": mechanism, "msg": msg[:600], "witness": witness}


def held(key, nontrivial=True, **kw) -> dict:
    d = {"status": "held", "key": key, "nontrivial": bool(nontrivial)}
    d.update(kw)
    return d


def violated(key, viols, nontrivial=True, **kw) -> dict:
    d = {"status": "violated", "key": key, "nontrivial": bool(nontrivial), "viol": viols}
    d.update(kw)
    return d


def inconclusive(key, why, **kw) -> dict:
    d = {"status": "inconclusive", "key": key, "nontrivial": False, "why": why}
    d.update(kw)
    return d


def result(key, viols, nontrivial=True, **kw) -> dict:
    return violated(key, viols, nontrivial, **kw) if viols else held(key, nontrivial, **kw)


def small(a, n=12):
    a = np.asarray(a)
    return a.reshape(-1)[:n].tolist()


def scribble(obj, _depth=0) -> int:
    """Hostile-caller step: overwrite, in place, every *writable* NumPy array reachable from a value that a public function
    returned to the harness (tuples, lists, dicts, objects with a `data` attribute such as MultiImage/GeometricImage). A caller
    owns what it was handed; if doing this changes what the library returns later, the library handed out its own state
    (a memo table, a cached index array). jax arrays are immutable and are left alone. Returns the number of arrays overwritten.
    Only call it on results whose harness-side inputs are not used again (an output may legitimately alias an input)."""
    n = 0
    if _depth > 4 or obj is None:
        return 0
    if isinstance(obj, np.ndarray):
        if obj.flags.writeable and obj.size:
            try:
                obj[...] = np.asarray(-777, dtype=obj.dtype) if obj.dtype.kind in "iuf" else obj.flat[0]
                return 1
            except (ValueError, TypeError):
                return 0
        return 0
    if isinstance(obj, (tuple, list)):
        for v in obj:
            n += scribble(v, _depth + 1)
    elif isinstance(obj, dict):
        for v in obj.values():
            n += scribble(v, _depth + 1)
    elif hasattr(obj, "data") and not isinstance(obj, (str, bytes)) and type(obj).__module__.startswith("ginjax"):
        n += scribble(obj.data, _depth + 1)
    return n
