"""Reusable R-monitors (reference-model postconditions) attached to the real callables.

ActionMonitor : every concrete return of geom.times_group_element / GeometricImage.times_group_element /
                MultiImage.times_group_element is compared with ref.action (+ metadata transport).
ConvMonitor   : every concrete return of geom.convolve (tensor_expand=True) / convolve_contract is
                compared with ref.conv.
StructureMonitor : icontract class invariant on MultiImage / GeometricImage (structural well-formedness).
They only *record* violations (never raise), so the observed execution is not disturbed.
"""
from __future__ import annotations

import numpy as np

from . import probes
from .ref import action as ract, conv as rconv, group as rgroup
from .util import err_exact, small, viol


def _is_signed_perm(g) -> bool:
    g = np.asarray(g)
    return (
        g.ndim == 2
        and g.shape[0] == g.shape[1]
        and np.isin(g, (-1, 0, 1)).all()
        and (np.abs(g).sum(0) == 1).all()
        and (np.abs(g).sum(1) == 1).all()
    )


def classify_action(D, shape_sp, g, entry, got_shape=None, want_shape=None, n_lead=None, ntypes=None, exc=None) -> str:
    g = np.asarray(g)
    perm_moves = rgroup.perm_of(g) != tuple(range(D))
    noncubic = len(set(shape_sp)) > 1
    if exc is not None:
        if entry == "mi" and isinstance(exc, AssertionError) and n_lead == 0 and (ntypes or 0) >= 2 and "n_leading_axes" in str(exc):
            return "D10-append-axis-assert-0-leading"
        return f"action-exception-{type(exc).__name__}"
    if entry == "mi" and got_shape is not None and got_shape != want_shape and noncubic and perm_moves:
        return "D9-multi-reshape-unrotated"
    if D == 3 and rgroup.is_three_cycle(g) and noncubic:
        return "D1-recentre-3cycle-noncubic"
    return "action-value-mismatch"


class ActionMonitor:
    def __init__(self, tol=1e-4):
        self.viol = []
        self.checked = {"array": 0, "gi": 0, "mi": 0}
        self.traced = 0
        self.tol = tol
        self.log = probes.EventLog()
        self.log.enabled = False
        self.patched = 0

    def install(self):
        import ginjax.geometric.functional_geometric_image as F
        from ginjax.geometric.geometric_image import GeometricImage
        from ginjax.geometric.multi_image import MultiImage

        self.patched += probes.install_function(F, "times_group_element", "geom.times_group_element", self.log, self._on_array)
        self.patched += probes.wrap_method(GeometricImage, "times_group_element", "GeometricImage.times_group_element", self.log, self._on_gi)
        self.patched += probes.wrap_method(MultiImage, "times_group_element", "MultiImage.times_group_element", self.log, self._on_mi)
        return self

    # -- array level
    def _on_array(self, ev):
        a, kw = ev["args"], ev["kwargs"]
        names = ("D", "data", "parity", "gg", "precision")
        d = dict(zip(names, a))
        d.update(kw)
        g = np.asarray(d["gg"])
        if not _is_signed_perm(g):
            return
        data = np.asarray(d["data"])
        D = int(d["D"])
        k = data.ndim - D
        self.check_array(D, data, k, int(d["parity"]), g, ev["out"])

    def check_array(self, D, data, k, p, g, out):
        self.checked["array"] += 1
        want = ract.act(D, data, k, p % 2, g)
        got = np.asarray(out)
        e = err_exact(got, want)
        if e > self.tol:
            mech = classify_action(D, data.shape[:D], g, "array")
            self.viol.append(
                viol(
                    mech,
                    f"geom.times_group_element != defining formula: D={D} shape={data.shape} k={k} p={p} g={g.tolist()} err={e:.3g}",
                    entry="array", D=D, shape=list(data.shape), k=k, p=p, g=g.tolist(), got=small(got), want=small(want),
                )
            )
            return False
        return True

    def _on_gi(self, ev):
        img, out = ev["obj"], ev["out"]
        g = np.asarray(ev["args"][0] if ev["args"] else ev["kwargs"]["gg"])
        if not _is_signed_perm(g):
            return
        self.checked["gi"] += 1
        D, k, p = img.D, img.k, img.parity
        data = np.asarray(img.data)
        want = ract.act(D, data, k, p, g)
        got = np.asarray(out.data)
        meta_ok = (out.D == D and out.k == k and out.parity == p and tuple(out.spatial_dims) == want.shape[:D])
        e = err_exact(got, want)
        base = dict(entry="gi", D=D, shape=list(data.shape), k=k, p=p, g=g.tolist(), is_torus=list(img.is_torus))
        if e > self.tol or not meta_ok:
            mech = classify_action(D, data.shape[:D], g, "gi")
            self.viol.append(viol(mech, f"GeometricImage.times_group_element != defining formula ({base}) err={e:.3g} meta_ok={meta_ok}", **base, got=small(got), want=small(want)))
        want_torus = rgroup.transport(g, tuple(img.is_torus))
        if tuple(out.is_torus) != tuple(want_torus):
            self.viol.append(
                viol("D8-torus-flags-not-transported", f"GeometricImage.times_group_element: is_torus {img.is_torus} -> {out.is_torus}, axes moved by g={g.tolist()} so expected {want_torus}", **base, got_torus=list(out.is_torus), want_torus=list(want_torus))
            )

    def _on_mi(self, ev):
        mi, out = ev["obj"], ev["out"]
        g = np.asarray(ev["args"][0] if ev["args"] else ev["kwargs"]["gg"])
        if not _is_signed_perm(g):
            return
        self.check_mi(mi, g, out)

    def check_mi(self, mi, g, out):
        self.checked["mi"] += 1
        D = mi.D
        nl = mi.get_n_leading()
        sp = tuple(mi.get_spatial_dims())
        base = dict(entry="mi", D=D, n_lead=nl, spatial=list(sp), g=g.tolist(), types={str(k): list(np.shape(v)) for k, v in mi.data.items()}, is_torus=list(mi.is_torus))
        if set(out.keys()) != set(mi.keys()) or out.D != D:
            self.viol.append(viol("action-type-set-changed", f"MultiImage.times_group_element changed the type set/D: {list(mi.keys())} -> {list(out.keys())}", **base))
            return
        for (k, p), blk in mi.data.items():
            want = ract.act(D, np.asarray(blk), k, p, g, nl)
            got = np.asarray(out[(k, p)])
            e = err_exact(got, want)
            if e > self.tol:
                mech = classify_action(D, sp, g, "mi", got_shape=tuple(got.shape), want_shape=tuple(want.shape), n_lead=nl, ntypes=len(mi.data))
                self.viol.append(viol(mech, f"MultiImage.times_group_element block {(k, p)}: got shape {got.shape}, want {want.shape}, err={e:.3g}, spatial={sp}, n_lead={nl}, g={g.tolist()}", **base, block=[k, p], got=small(got), want=small(want)))
                break
        want_torus = rgroup.transport(g, tuple(mi.is_torus))
        if tuple(out.is_torus) != tuple(want_torus):
            self.viol.append(viol("D8-torus-flags-not-transported", f"MultiImage.times_group_element: is_torus {mi.is_torus} -> {out.is_torus}, expected {want_torus} for g={g.tolist()}", **base, got_torus=list(out.is_torus), want_torus=list(want_torus)))

    def take(self):
        v, self.viol = self.viol, []
        return v


class ConvMonitor:
    """R-monitor on geom.convolve / geom.convolve_contract (concrete calls only)."""

    def __init__(self, tol=1e-4, max_elems=2_000_000):
        self.viol = []
        self.checked = {"convolve": 0, "convolve_contract": 0}
        self.skipped = 0
        self.tol = tol
        self.max_elems = max_elems
        self.log = probes.EventLog()
        self.log.enabled = False
        self.records = []  # (callee, cfg) of checked calls
        self.patched = 0

    def install(self):
        import ginjax.geometric.functional_geometric_image as F

        self.patched += probes.install_function(F, "convolve", "geom.convolve", self.log, self._on_conv)
        self.patched += probes.install_function(F, "convolve_contract", "geom.convolve_contract", self.log, self._on_cc)
        return self

    @staticmethod
    def _bind(a, kw, with_expand):
        names = ["D", "image", "filter_image", "is_torus", "stride", "padding", "lhs_dilation", "rhs_dilation"]
        defaults = {"stride": 1, "padding": None, "lhs_dilation": None, "rhs_dilation": 1, "tensor_expand": True}
        if with_expand:
            names.append("tensor_expand")
        d = dict(defaults)
        d.update(dict(zip(names, a)))
        d.update(kw)
        return d

    def _on_conv(self, ev):
        d = self._bind(ev["args"], ev["kwargs"], True)
        if not d["tensor_expand"]:
            return
        self.check("convolve", d, ev["out"])

    def _on_cc(self, ev):
        d = self._bind(ev["args"], ev["kwargs"], False)
        self.check("convolve_contract", d, ev["out"])

    def check(self, callee, d, out):
        D = int(d["D"])
        img = np.asarray(d["image"])
        flt = np.asarray(d["filter_image"])
        cfg = dict(D=D, image=list(img.shape), filter=list(flt.shape), is_torus=d["is_torus"], stride=d["stride"], padding=d["padding"], lhs_dilation=d["lhs_dilation"], rhs_dilation=d["rhs_dilation"])
        if img.size * max(1, flt.size // max(1, int(np.prod(flt.shape[2 : 2 + D])))) > self.max_elems:
            self.skipped += 1
            return None
        try:
            fn = rconv.convolve if callee == "convolve" else rconv.conv_contract
            want = fn(D, img, flt, d["is_torus"], d["stride"], d["padding"], d["lhs_dilation"], d["rhs_dilation"])
        except ValueError:
            self.skipped += 1
            return None
        self.checked[callee] += 1
        got = np.asarray(out)
        e = err_exact(got, want)
        # float inputs: allow relative slack 1e-4 of the scale (err_exact is already scale relative)
        if e > self.tol:
            self.viol.append(viol(f"{callee}-value-mismatch", f"geom.{callee} != direct-sum definition: {cfg} got shape {got.shape} want {want.shape} err={e:.3g}", callee=callee, **cfg, got=small(got), want=small(want)))
            return False
        return True

    def take(self):
        v, self.viol = self.viol, []
        return v


# ---------------------------------------------------------------------------------------------
class InvariantBroken(Exception):
    pass


class StructureMonitor:
    """icontract class invariant on MultiImage: every block has tensor axes (D,)*k, one common number
    of leading axes, common spatial extents; parity in {0,1}; is_torus has length D. Violations are
    recorded (condition returns True) so the observed execution continues."""

    def __init__(self):
        self.viol = []
        self.evaluations = 0
        self.installed = False

    def install(self):
        try:
            import icontract
        except Exception:
            return self
        from ginjax.geometric.multi_image import MultiImage

        mon = self

        def multi_image_well_formed(self):
            mon.evaluations += 1
            try:
                problems = structure_problems(self)
            except Exception as e:  # tracer shapes are still concrete; anything else is recorded
                problems = [f"structure check raised {type(e).__name__}: {e}"]
            if problems:
                mon.viol.append(viol("multi-image-structure", "; ".join(problems)[:500], types={str(k): list(np.shape(v)) for k, v in self.data.items()}, D=self.D))
            return True

        icontract.invariant(multi_image_well_formed, error=InvariantBroken)(MultiImage)
        self.installed = True
        return self

    def take(self):
        v, self.viol = self.viol, []
        return v


def structure_problems(mi) -> list[str]:
    out = []
    D = mi.D
    if not (isinstance(mi.is_torus, tuple) and len(mi.is_torus) == D):
        out.append(f"is_torus {mi.is_torus!r} is not a {D}-tuple")
    nl, sp = None, None
    for key, blk in mi.data.items():
        if not (isinstance(key, tuple) and len(key) == 2):
            out.append(f"bad key {key!r}")
            continue
        k, p = key
        if p not in (0, 1):
            out.append(f"parity {p} not in {{0,1}} for key {key}")
        shp = tuple(np.shape(blk))
        if len(shp) < D + k:
            out.append(f"block {key} has too few axes {shp}")
            continue
        if k and shp[-k:] != (D,) * k:
            out.append(f"block {key} tensor axes {shp[-k:]} != {(D,) * k}")
        this_nl = len(shp) - D - k
        this_sp = shp[this_nl : this_nl + D]
        if nl is None:
            nl, sp = this_nl, this_sp
        else:
            if this_nl != nl:
                out.append(f"block {key} has {this_nl} leading axes, another has {nl}")
            elif this_sp != sp:
                out.append(f"block {key} spatial extents {this_sp} != {sp}")
    return out


# ---------------------------------------------------------------------------------------------
class ArithMonitor:
    """R-monitor on MultiImage.__add__/__sub__/__mul__/__truediv__/__eq__: every concrete return is
    compared type-by-type with NumPy on the operands' blocks *looked up by key*."""

    def __init__(self, tol=1e-5):
        self.viol = []
        self.checked = {"add": 0, "sub": 0, "mul": 0, "div": 0, "eq": 0}
        self.tol = tol
        self.log = probes.EventLog()
        self.log.enabled = False

    def install(self):
        from ginjax.geometric.multi_image import MultiImage

        for name, op in (("__add__", "add"), ("__sub__", "sub"), ("__mul__", "mul"), ("__truediv__", "div"), ("__eq__", "eq")):
            probes.wrap_method(MultiImage, name, f"MultiImage.{name}", self.log, lambda ev, op=op: self._on(op, ev))
        return self

    def _on(self, op, ev):
        from ginjax.geometric.multi_image import MultiImage

        a, out = ev["obj"], ev["out"]
        b = ev["args"][0] if ev["args"] else list(ev["kwargs"].values())[0]
        self.check(op, a, b, out, ev["args"][1:], ev["kwargs"])

    def check(self, op, a, b, out, extra=(), kw=None):
        from ginjax.geometric.multi_image import MultiImage

        self.checked[op] += 1
        A = probes.blocks(a)
        base = dict(op=op, a_order=[list(k) for k in A], D=a.D)
        if op in ("add", "sub"):
            Bk = probes.blocks(b)
            base["b_order"] = [list(k) for k in Bk]
            if set(A) != set(Bk):
                self.viol.append(viol("arith-different-type-sets-combined", f"{op}: operands with different type sets were combined: {list(A)} vs {list(Bk)}", **base))
                return
            O = probes.blocks(out)
            if set(O) != set(A):
                self.viol.append(viol("arith-type-set-changed", f"{op}: result types {list(O)} != operand types {list(A)}", **base))
                return
            for t in A:
                if A[t].shape != Bk[t].shape:
                    continue  # not a well-formed pair; the library may broadcast or raise, not judged
                want = A[t] + Bk[t] if op == "add" else A[t] - Bk[t]
                if O[t].shape != want.shape or err_exact(O[t], want) > self.tol:
                    src = self._who(O[t], A, Bk, t, op)
                    mech = "D2-arith-positional-pairing" if (list(A) != list(Bk)) else "arith-value-mismatch"
                    self.viol.append(viol(mech, f"(a {op} b)[{t}] != a[{t}] {op} b[{t}]; a order {list(A)}, b order {list(Bk)}; {src}", **base, block=list(t), got=small(O[t]), want=small(want)))
                    return
            if out.D != a.D or tuple(out.is_torus) != tuple(a.is_torus):
                self.viol.append(viol("arith-metadata", f"{op}: D/is_torus changed", **base))
        elif op in ("mul", "div"):
            if isinstance(b, MultiImage):
                return
            s = float(np.asarray(b))
            O = probes.blocks(out)
            if set(O) != set(A):
                self.viol.append(viol("arith-type-set-changed", f"{op}: result types {list(O)} != operand types {list(A)}", **base))
                return
            for t in A:
                want = A[t] * s if op == "mul" else A[t] / s
                if O[t].shape != want.shape or err_exact(O[t], want) > max(self.tol, 1e-5):
                    self.viol.append(viol("arith-scalar-mismatch", f"(a {op} {s})[{t}] wrong", **base, block=list(t), got=small(O[t]), want=small(want)))
                    return
        elif op == "eq":
            if not isinstance(b, MultiImage):
                if bool(out):
                    self.viol.append(viol("eq-non-multiimage", "a == <non MultiImage> returned True", **base))
                return
            Bk = probes.blocks(b)
            rtol = extra[0] if len(extra) > 0 else (kw or {}).get("rtol", 1e-5)
            atol = extra[1] if len(extra) > 1 else (kw or {}).get("atol", 1e-5)
            want = a.D == b.D and tuple(a.is_torus) == tuple(b.is_torus) and set(A) == set(Bk)
            margin_ok = True
            if want:
                for t in A:
                    if A[t].shape != Bk[t].shape:
                        want = False
                        break
                    diff = np.abs(A[t] - Bk[t])
                    lim = atol + rtol * np.abs(Bk[t])
                    if np.any(diff > lim):
                        want = False
                    # grey zone: differences within a factor 2 of the tolerance are not judged
                    if np.any((diff > 0.5 * lim) & (diff < 2 * lim) & (diff > 0)):
                        margin_ok = False
            if margin_ok and bool(out) != bool(want):
                mech = "eq-positional" if list(A) != list(Bk) else "eq-mismatch"
                self.viol.append(viol(mech, f"a == b returned {bool(out)}, type-wise comparison says {bool(want)}; orders {list(A)} / {list(Bk)}", **base))

    @staticmethod
    def _who(got, A, Bk, t, op):
        """With unique-id payloads: name the blocks that were actually combined."""
        g = got.reshape(-1)
        for ta in A:
            for tb in Bk:
                if A[ta].size == g.size and Bk[tb].size == g.size:
                    w = A[ta].reshape(-1) + Bk[tb].reshape(-1) if op == "add" else A[ta].reshape(-1) - Bk[tb].reshape(-1)
                    if np.array_equal(w, g):
                        return f"block {ta} of a was combined with block {tb} of b"
        return "combined blocks not identifiable"

    def take(self):
        v, self.viol = self.viol, []
        return v
