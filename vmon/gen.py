"""Seeded workload generators shared by several checks."""
from __future__ import annotations

import numpy as np

from .ref import conv as rconv


def pick(rng, seq):
    return seq[int(rng.integers(len(seq)))]


def tup(v):
    return tuple(tup(x) for x in v) if isinstance(v, (list, tuple)) else v


def spatial_shape(rng, D, lo=2, hi=6, kind=None):
    kind = kind or pick(rng, ["square", "nonsquare", "nonsquare", "distinct", "with2"])
    if kind == "square":
        n = int(rng.integers(max(lo, 3), hi + 1))
        return (n,) * D
    if kind == "distinct":
        vals = rng.choice(np.arange(lo, hi + 2), size=D, replace=False)
        return tuple(int(v) for v in vals)
    if kind == "with2":
        s = [int(rng.integers(lo, hi + 1)) for _ in range(D)]
        s[int(rng.integers(D))] = 2
        return tuple(s)
    s = tuple(int(rng.integers(lo, hi + 1)) for _ in range(D))
    return s


def conv_config(rng, D, equivariance=False, max_k_sum=None):
    """A random option set for geom.convolve inside the documented domain with output extents >= 1.

    equivariance=True restricts to the domain of C01: unit stride, symmetric boundary treatment."""
    for _ in range(200):
        hi = 6 if D == 2 else 4
        sp = spatial_shape(rng, D, 2, hi)
        # filter side: odd mostly, sometimes even / non-square
        fk = pick(rng, ["odd", "odd", "odd", "even", "nonsq"]) if not equivariance else pick(rng, ["odd", "odd", "odd", "even", "nonsq"])
        if fk == "odd":
            M = pick(rng, [1, 3, 3, 3, 5] if D == 2 else [1, 3, 3])
            fsp = (M,) * D
        elif fk == "even":
            M = pick(rng, [2, 2, 4] if D == 2 else [2])
            fsp = (M,) * D
        else:
            fsp = tuple(int(pick(rng, [1, 2, 3, 3])) for _ in range(D))
        has_even = any(m % 2 == 0 for m in fsp)
        tor_kind = pick(rng, ["all", "none", "mixed", "mixed"])
        if tor_kind == "all":
            is_torus = pick(rng, [True, (True,) * D])
        elif tor_kind == "none":
            is_torus = pick(rng, [False, (False,) * D])
        else:
            is_torus = tuple(bool(v) for v in rng.integers(0, 2, size=D))
        rhs = pick(rng, [1, 1, 2, 3, "tuple"])
        if rhs == "tuple":
            rhs = tuple(int(rng.integers(1, 4)) for _ in range(D))
        lhs = pick(rng, [None, None, None, "t"])
        if lhs == "t":
            lhs = tuple(int(rng.integers(1, 4)) for _ in range(D))
        pads = ["VALID", "int", "explicit"]
        if not has_even:
            pads += [None, "TORUS", "SAME", None, "TORUS", "SAME"]
        pk = pick(rng, pads)
        # string TORUS together with image dilation is kept in both modes: C01's statement only excludes image dilation
        # from the *translation* part (the group part covers every symmetric boundary treatment x image dilation)
        if pk == "int":
            padding = int(rng.integers(0, 4))
        elif pk == "explicit":
            if equivariance:
                padding = tuple((int(v), int(v)) for v in rng.integers(0, 4, size=D))
            else:
                padding = tuple((int(a), int(b)) for a, b in rng.integers(0, 4, size=(D, 2)))
        else:
            padding = pk
        if equivariance:
            stride = 1
        else:
            stride = pick(rng, [1, 1, 2, 3, "tuple"])
            if stride == "tuple":
                stride = tuple(int(rng.integers(1, 4)) for _ in range(D))
        try:
            osp = rconv.out_extents(sp, fsp, is_torus, stride, padding, lhs, rhs)
        except ValueError:
            continue
        if min(osp) < 1:
            continue
        if int(np.prod(osp)) > 4000:
            continue
        kmax = max_k_sum if max_k_sum is not None else (4 if D == 2 else 3)
        k = int(pick(rng, [0, 0, 1, 1, 2]))
        k2 = int(pick(rng, [0, 1, 1, 2, 2]))
        while k + k2 > kmax:
            if k2 > 0:
                k2 -= 1
            else:
                k -= 1
        return {
            "D": D, "sp": list(sp), "fsp": list(fsp), "is_torus": is_torus if isinstance(is_torus, bool) else list(is_torus),
            "stride": stride if isinstance(stride, int) else list(stride),
            "padding": padding if not isinstance(padding, tuple) else [list(p) for p in padding],
            "lhs": None if lhs is None else list(lhs), "rhs": rhs if isinstance(rhs, int) else list(rhs),
            "k": k, "k2": k2, "B": int(rng.integers(1, 4)), "Cin": int(rng.integers(1, 4)), "Cout": int(rng.integers(1, 4)),
            "pad_kind": "None" if pk is None else pk, "filter_kind": fk, "torus_kind": tor_kind,
        }
    raise RuntimeError("could not draw a conv config")


def conv_args(cfg):
    """JSON config -> positional option values as the library expects them (tuples)."""
    is_torus = cfg["is_torus"] if isinstance(cfg["is_torus"], bool) else tuple(bool(v) for v in cfg["is_torus"])
    stride = cfg["stride"] if isinstance(cfg["stride"], int) else tuple(cfg["stride"])
    padding = cfg["padding"]
    if isinstance(padding, list):
        padding = tuple((int(a), int(b)) for a, b in padding)
    lhs = None if cfg["lhs"] is None else tuple(cfg["lhs"])
    rhs = cfg["rhs"] if isinstance(cfg["rhs"], int) else tuple(cfg["rhs"])
    return is_torus, stride, padding, lhs, rhs
