"""C19 — stopping conditions stop exactly when specified, for any loss history.

History/state-machine monitor: StopCondition.stop is wrapped at class level; a small automaton written
from the statement is stepped in lock-step on the observed arguments and compared with the returned
decision and with best_model after every call. Workload: exhaustive loss histories over a 3-level
alphabet up to a length bound, for every patience/min_delta/monitored-quantity/scalar-representation,
plus real ml.train runs on a tiny model under a logical-step watchdog (the probe aborts a run as soon as
the reference says it must have stopped)."""
from __future__ import annotations

import itertools as it

import numpy as np

from .. import probes
from ..ref import misc as rmisc
from ..util import result, rng_for, viol

ID = "C19"
RULE = (
    "exhaustive: every loss history over the ordered alphabet {-1,0,1,2} (0 = a model that fits exactly, -1 = a negative loss) up to length 7 (thorough; 5 quick), with and "
    "without the initial None call the training loop makes, x patience 0..3 x min_delta {0,0.5,1.0(,1.5)} x monitored {train,val} "
    "x representation {float, numpy.float32, numpy.float64, 0-d jax array}; EpochStop for epochs 0..5; real ml.train "
    "runs (TrainLoss, ValLoss, EpochStop) on a tiny model with non-improving losses. A case = one configuration with all "
    "its histories; non-trivial: >=1 history in which the reference stops; distinct by configuration. evaluations = stop() calls monitored."
)
RULE += " Every enumerated history is run twice: with contiguous epoch labels and with labels that restart midway / stay constant / descend / jump (the decision is a function of the losses; the epoch number is a label)."
RULE += " Real runs also count the optimisation steps against the stop decisions (stop() is consulted before every epoch, EpochStop(0) trains nothing). Also: special values {0.5, 2, inf, nan} and the fine alphabet {1e-3, 1e-3-1e-11, 1e-3-2e-11, 1e39} in histories one shorter, verbose modes, exact-fit and improving-then-plateau real runs."
EXHAUSTIVE = {"quick": True, "thorough": True}
ASSUMPTIONS = ["automaton vmon/ref/misc.py:PatienceAutomaton written from the statement", "losses over {-1,0,1,2} and min_delta in {0,0.5,1,1.5} are exact in every representation"]
ANCHORS = [
    "ginjax.ml.stopping_conditions:TrainLoss.stop",
    "ginjax.ml.stopping_conditions:ValLoss.stop",
    "ginjax.ml.stopping_conditions:EpochStop.stop",
    "ginjax.ml.training:train",
]
MIN_NONTRIVIAL = {"quick": 20, "thorough": 60}
WORKERS = {"quick": 8, "thorough": 16}
TIMEOUT = {"quick": 900, "thorough": 3600}

REPS = {"quick": ["float", "jax", "np32"], "thorough": ["float", "np32", "np64", "jax"]}
MAXLEN = {"quick": 5, "thorough": 7}
SPECIAL = (0.5, 2, "inf", "nan")
# losses that differ by less than float32 resolution, and one beyond the float32 range: a Python float / numpy.float64 loss is
# compared as the double it is (a float32 or jax scalar carries the already rounded value, and the automaton sees that value)
FINE = {"f0": 1e-3, "f1": 1e-3 - 1e-11, "f2": 1e-3 - 2e-11, "big": 1e39}
# epoch labels handed to stop() along one history: every history is run with the contiguous labels and with one of the others
LABELS = (
    ("contiguous", lambda e, n: e),
    ("from-one", lambda e, n: e + 1),
    ("restart-midway", lambda e, n: e if e < (n + 1) // 2 else e - (n + 1) // 2),
    ("constant", lambda e, n: 0),
    ("descending", lambda e, n: n - e),
    ("sparse", lambda e, n: 5 * e + 3),
    ("resumed-late", lambda e, n: e if e == 0 else e + 40),
)
LEVELS = (-1, 0, 1, 2)  # 0 is a legitimate loss (a model that fits exactly); losses may also be negative


def cases(tier, seed):
    out = []
    for cls in ("TrainLoss", "ValLoss"):
        for patience in range(4):
            for md in ((0.0, 0.5, 1.0) if tier == "quick" else (0.0, 0.5, 1.0, 1.5)):  # 1.0/1.5 >= the alphabet spacing: small decreases that are not improvements
                for rep in REPS[tier]:
                    out.append({"kind": "hist", "cls": cls, "patience": patience, "min_delta": md, "rep": rep, "maxlen": MAXLEN[tier]})
    for epochs in range(6):
        out.append({"kind": "epoch", "epochs": epochs})
    real = [("TrainLoss", 0), ("ValLoss", 1), ("EpochStop", 2), ("TrainLoss", 2), ("EpochStop", 0)]
    if tier == "thorough":
        real += [("ValLoss", 0), ("TrainLoss", 1), ("EpochStop", 1), ("EpochStop", 4), ("ValLoss", 3), ("TrainLoss", 3)]
    for j, (cls, n) in enumerate(real):
        for model in (["scale"] if tier == "quick" or j >= 4 else ["scale", "conv"]):
            out.append({"kind": "real", "cls": cls, "n": n, "model": model, "lr": [0.0, 1e-7][j % 2]})
    # a model that fits its data exactly: the monitored loss is exactly 0 in every epoch (still a non-improving history)
    out.append({"kind": "real", "cls": "TrainLoss", "n": 1, "model": "scale", "lr": 0.0, "exact_fit": True})
    out.append({"kind": "real", "cls": "ValLoss", "n": 0, "model": "scale", "lr": 0.0, "exact_fit": True})
    # histories that improve for a while and then plateau (the loss cannot reach 0): the stop epoch is whatever the
    # automaton derives from the observed losses, the returned model must be the one of the best epoch
    for j, (cls, n) in enumerate([("TrainLoss", 1), ("ValLoss", 0)] + ([("TrainLoss", 3), ("ValLoss", 2), ("TrainLoss", 0)] if tier == "thorough" else [])):
        out.append({"kind": "real", "cls": cls, "n": n, "model": "scale", "lr": [0.05, 0.1][j % 2], "improving": True})
    return out


class _Abort(Exception):
    pass


class StopMonitor:
    def __init__(self):
        self.viol = []
        self.calls = 0
        self.auto = {}
        self.log = probes.EventLog()
        self.log.enabled = False
        self.trace = {}

    def install(self):
        import ginjax.ml.stopping_conditions as sc

        for cls in (sc.TrainLoss, sc.ValLoss, sc.EpochStop):
            probes.wrap_method(cls, "stop", f"{cls.__name__}.stop", self.log, self._on)
        return self

    def register(self, cond, automaton, monitored, abort_on_miss=False, max_calls=None):
        self.auto[id(cond)] = (automaton, monitored, abort_on_miss, max_calls)
        self.trace[id(cond)] = []

    def _on(self, ev):
        cond = ev["obj"]
        reg = self.auto.get(id(cond))
        if reg is None:
            return
        automaton, monitored, abort_on_miss, max_calls = reg
        names = ("model", "current_epoch", "train_loss", "val_loss", "epoch_time")
        d = dict(zip(names, ev["args"]))
        d.update(ev["kwargs"])
        self.calls += 1
        tr = self.trace[id(cond)]
        if monitored == "epoch":
            want = automaton.step(d["model"], d["current_epoch"])
            loss = d["current_epoch"]
        else:
            loss = d[monitored]
            want = automaton.step(d["model"], loss)
        got = ev["out"]
        tr.append({"call": len(tr), "loss": None if loss is None else float(loss), "rep": type(loss).__name__, "got": bool(got), "want": bool(want), "model": id(d["model"])})
        cls = type(cond).__name__
        if bool(got) != bool(want):
            nonfloat = loss is not None and not isinstance(loss, float)
            untouched = getattr(cond, "epochs_since_best", None) == 0 and not np.isfinite(float(getattr(cond, "best_train_loss", getattr(cond, "best_val_loss", 0.0))))
            mech = "D4-nonfloat-loss-ignored" if (cls in ("TrainLoss", "ValLoss") and nonfloat and not got and untouched) else "stop-decision-mismatch"
            self.viol.append(viol(mech, f"{cls}.stop returned {bool(got)} at call {len(tr) - 1}, the specification says {bool(want)}; loss representation {type(loss).__name__}; history {[t['loss'] for t in tr]}", cls=cls, trace=tr[-12:], patience=getattr(cond, "patience", None), min_delta=getattr(cond, "min_delta", None)))
            if abort_on_miss:
                raise _Abort()
        elif automaton.has_best and cond.best_model is not automaton.best_model:
            nonfloat = loss is not None and not isinstance(loss, float)
            mech = "D4-nonfloat-loss-ignored" if (cls in ("TrainLoss", "ValLoss") and nonfloat and getattr(cond, "epochs_since_best", None) == 0 and not np.isfinite(float(getattr(cond, "best_train_loss", getattr(cond, "best_val_loss", 0.0))))) else "best-model-mismatch"
            self.viol.append(viol(mech, f"{cls}.best_model is not the model of the best epoch after call {len(tr) - 1}; history {[t['loss'] for t in tr]}", cls=cls, trace=tr[-12:]))
            if abort_on_miss:
                raise _Abort()
        if max_calls is not None and len(tr) > max_calls:
            self.viol.append(viol("stop-watchdog", f"{cls}: {len(tr)} stop() calls without termination (logical watchdog)", cls=cls, trace=tr[-12:]))
            raise _Abort()

    def take(self):
        v, self.viol = self.viol, []
        return v


_mon = None


def setup(ctx):
    global _mon
    import ginjax.ml  # noqa: F401

    _mon = StopMonitor().install()
    # how many optimisation steps a real run actually made (the stop decisions alone do not say when the loop consults them)
    import ginjax.ml.training as tr
    from .. import probes

    log = probes.EventLog()
    log.enabled = False
    probes.install_function(tr, "train_step", "ml.train_step", log, lambda ev: _steps.__setitem__(0, _steps[0] + 1))
    return rmisc.selftest()


_steps = [0]


def make_rep(rep):
    import jax.numpy as jnp

    import warnings

    num = {**{v: float(v) for v in LEVELS + SPECIAL}, **FINE}
    with warnings.catch_warnings():
        warnings.simplefilter("ignore")  # 1e39 overflows to inf in the float32 representations, on purpose
        if rep == "float":
            return {v: float(x) for v, x in num.items()}
        if rep == "np32":
            return {v: np.float32(x) for v, x in num.items()}
        if rep == "np64":
            return {v: np.float64(x) for v, x in num.items()}
        return {v: jnp.asarray(x) for v, x in num.items()}


def run(case, ctx):
    if case["kind"] == "hist":
        return run_hist(case, ctx)
    if case["kind"] == "epoch":
        return run_epoch(case, ctx)
    return run_real(case, ctx)


def run_hist(case, ctx):
    import contextlib
    import io

    import ginjax.ml as ml

    with contextlib.redirect_stdout(io.StringIO()):  # verbose=1 conditions log on improvement
        return _run_hist(case, ctx, ml)


def _run_hist(case, ctx, ml):

    cls = getattr(ml, case["cls"])
    monitored = "train_loss" if case["cls"] == "TrainLoss" else "val_loss"
    vals = make_rep(case["rep"])
    other = vals[1]
    key = {k: case[k] for k in ("cls", "patience", "min_delta", "rep", "maxlen")}
    viols, calls, n_hist, n_stop = [], 0, 0, 0
    labels_seen = {}
    _mon.take()
    def all_histories():
        for L in range(1, case["maxlen"] + 1):
            for hi, hist in enumerate(it.product(LEVELS, repeat=L)):
                yield L, hi, hist
        # losses of a diverging run: inf and nan are not improvements (nan compares false with everything)
        for L in range(1, case["maxlen"]):
            for hi, hist in enumerate(it.product(SPECIAL, repeat=L)):
                if any(v in ("inf", "nan") for v in hist):
                    yield L, hi, hist
        for L in range(1, case["maxlen"]):
            for hi, hist in enumerate(it.product(tuple(FINE), repeat=L)):
                yield L, hi, hist

    n_sched = len(LABELS)
    runs = ((L, hi, hist, sched) for L, hi, hist in all_histories() for sched in (0, 1 + (hi + L) % (n_sched - 1)))
    for L, hi, hist, sched in runs:
        if True:
            n_hist += 1
            cond = cls(patience=case["patience"], min_delta=case["min_delta"], verbose=(hi % 2 if case["patience"] == 1 else 0))
            auto = rmisc.PatienceAutomaton(case["patience"], case["min_delta"])
            _mon.register(cond, auto, monitored)
            seq = ([None] if (hi + L) % 2 == 0 else []) + [vals[v] for v in hist]
            stopped = False
            labels_seen[LABELS[sched][0]] = labels_seen.get(LABELS[sched][0], 0) + 1
            for e, loss in enumerate(seq):
                model = ("model", e)
                tl, vl = (loss, None if loss is None else other) if monitored == "train_loss" else (None if loss is None else other, loss)
                # the decision is a function of the loss sequence; the epoch number is a label (a warm restart, a resumed
                # checkpoint or a curriculum loop hands the same object labels that restart, jump or repeat)
                got = cond.stop(model, LABELS[sched][1](e, len(seq)), tl, vl, 0.0)
                calls += 1
                if got or auto.count > auto.patience:
                    stopped = True
                    break
            n_stop += int(stopped)
            _mon.auto.pop(id(cond), None)
            _mon.trace.pop(id(cond), None)
            if len(_mon.viol) > 20:
                break
        if len(_mon.viol) > 20:
            break
    viols = dedup(_mon.take())
    return result(key, viols, n_stop > 0, evals=calls, obs={"histories": n_hist, "histories_with_stop": n_stop, "stop_calls": calls, **{"labels_" + k: v for k, v in labels_seen.items()}},
                  hist={"cls": case["cls"], "rep": case["rep"], "patience": case["patience"], "min_delta": case["min_delta"], "kind": "hist"},
                  sample={"case": case, "histories": n_hist, "example_history": [None, 3, 2, 2, 2]})


def dedup(viols, per=2):
    seen, out = {}, []
    for v in viols:
        seen[v["mechanism"]] = seen.get(v["mechanism"], 0) + 1
        if seen[v["mechanism"]] <= per:
            out.append(v)
    return out


def run_epoch(case, ctx):
    import contextlib
    import io

    import ginjax.ml as ml

    with contextlib.redirect_stdout(io.StringIO()):
        return _run_epoch(case, ctx, ml)


def _run_epoch(case, ctx, ml):

    n = case["epochs"]
    _mon.take()
    calls = 0
    for rep in ("float", "jax"):
        vals = make_rep(rep)
        cond = ml.EpochStop(epochs=n, verbose=(0 if n == 0 else {"float": 2, "jax": 1}[rep]))
        auto = rmisc.EpochAutomaton(n)
        _mon.register(cond, auto, "epoch")
        for e in range(n + 3):
            model = ("model", e)
            got = cond.stop(model, e, None if e == 0 else vals[LEVELS[e % len(LEVELS)]], None, 0.0)
            calls += 1
            if got:
                break
    return result({"kind": "epoch", "epochs": n}, dedup(_mon.take()), True, evals=calls, obs={"stop_calls": calls}, hist={"cls": "EpochStop", "kind": "hist"}, sample={"case": case})


def run_real(case, ctx):
    import contextlib
    import io

    import equinox as eqx
    import jax
    import jax.numpy as jnp
    import optax

    import ginjax.geometric as geom
    import ginjax.ml as ml
    import ginjax.models as models

    rng = rng_for(ctx["seed"], ID, case["i"])
    D, N, L = 2, 4, 4
    X = geom.MultiImage({(0, 0): jnp.asarray(rng.normal(size=(L, 1, N, N)).astype(np.float32))}, D, True)
    off = 0.0 if case.get("exact_fit") else 1.0
    Y = geom.MultiImage({(0, 0): 2.0 * X[(0, 0)] + off}, D, True)
    VX = geom.MultiImage({(0, 0): jnp.asarray(rng.normal(size=(2, 1, N, N)).astype(np.float32))}, D, True)
    VY = geom.MultiImage({(0, 0): 2.0 * VX[(0, 0)] + off}, D, True)

    class Scale(models.MultiImageModule):
        w: jax.Array

        def __call__(self, x, aux_data=None):
            return x * self.w, aux_data

    if case["model"] == "scale":
        model = Scale(jnp.asarray(2.0 if case.get("exact_fit") else 0.5))
    else:
        from ..ref import group as rgroup, invariant as rinv

        bank = rinv.invariant_bank(rgroup.hyperoctahedral(2), 3, 2, (0,), (0,))
        filters = geom.MultiImage({t: jnp.asarray(v.astype(np.float32)) for t, v in bank.items()}, 2, True)
        sig = geom.Signature((((0, 0), 1),))
        model = models.ConvBlock(2, sig, sig, use_bias="auto", activation_f=None, equivariant=True, conv_filters=filters, key=jax.random.PRNGKey(int(case["i"])))

    def map_and_loss(m, x, y, aux):
        out = jax.vmap(lambda xi: m(xi)[0])(x)
        return ml.smse_loss(out, y), aux

    cls, n = case["cls"], case["n"]
    lr = case["lr"]
    if cls == "EpochStop":
        cond = ml.EpochStop(epochs=n)
        auto, monitored, expect_calls = rmisc.EpochAutomaton(n), "epoch", n + 1
    else:
        cond = getattr(ml, cls)(patience=n, min_delta=1e-2)
        auto = rmisc.PatienceAutomaton(n, 1e-2)
        monitored = "train_loss" if cls == "TrainLoss" else "val_loss"
        expect_calls = None if case.get("improving") else n + 3
    _mon.take()
    _mon.register(cond, auto, monitored, abort_on_miss=True, max_calls=(400 if case.get("improving") else n + 25))
    calls_before = _mon.calls
    steps_before = _steps[0]
    aborted = False
    viols = []
    returned = None
    sink = io.StringIO()
    try:
        with contextlib.redirect_stdout(sink):
            returned = ml.train(X, Y, map_and_loss, model, jax.random.PRNGKey(int(case["i"])), cond, 2, optax.sgd(lr), validation_X=VX if cls == "ValLoss" else None, validation_Y=VY if cls == "ValLoss" else None)[0]
    except _Abort:
        aborted = True
    except Exception as e:
        viols.append(viol(f"train-exception-{type(e).__name__}", f"ml.train raised {type(e).__name__}: {str(e)[:300]}"))
    viols += _mon.take()
    calls = _mon.calls - calls_before
    tr = _mon.trace.get(id(cond), [])
    if not viols:
        if returned is None:
            viols.append(viol("train-no-result", "ml.train returned nothing"))
        else:
            if expect_calls is None:
                improved = sum(1 for a, b in zip(tr, tr[1:]) if a["loss"] is not None and b["loss"] is not None and b["loss"] < a["loss"] - 1e-2)
                if improved < 2:
                    viols.append(viol("harness-history-not-improving", f"the 'improving' history improved only {improved} times (harness problem)", trace=tr))
            elif calls != expect_calls:
                viols.append(viol("stop-call-count", f"{cls}: training made {calls} stop() calls, the specification implies {expect_calls}", trace=tr))
            # the loop trains one epoch per stop() that answered "go on": stop() is consulted before every epoch, including
            # the first, so a run with c decisions has trained exactly c-1 epochs of floor(L/B) steps (EpochStop(0): none)
            steps = _steps[0] - steps_before
            if not aborted and steps != (calls - 1) * (L // 2):
                viols.append(viol("train-step-count", f"{cls}(n={n}): {steps} optimisation steps for {calls} stop() decisions; the specification implies {(calls - 1) * (L // 2)} ({calls - 1} epochs of {L // 2} batches)", trace=tr))
            if cls == "EpochStop" and n == 0 and lr > 0 and float(returned.w if hasattr(returned, "w") else 0) != float(model.w if hasattr(model, "w") else 0):
                viols.append(viol("train-step-count", "EpochStop(0): the returned model is not the untouched initial model"))
            if returned is not auto.best_model:
                viols.append(viol("best-model-mismatch", f"{cls}: ml.train did not return the model of the best epoch / last epoch", trace=tr))
    key = {k: case.get(k) for k in ("cls", "n", "model", "lr", "improving", "exact_fit")}
    return result({"kind": "real", **key}, viols, True, evals=calls, obs={"stop_calls": calls, "real_runs": 1}, hist={"cls": cls, "kind": "real", "rep": tr[-1]["rep"] if tr else "?"}, sample={"case": case, "trace": tr[:8]})


def finalize(tier, results, obs, hist, metas):
    problems = []
    if obs.get("real_runs", 0) < 3:
        problems.append("fewer than 3 real training runs observed")
    if obs.get("histories", 0) < 1000:
        problems.append("fewer than 1000 histories")
    return {"histories_total": obs.get("histories", 0)}, problems
