"""C09 — training cannot break equivariance.

Invariant at a hook + P-monitor after the history: a forwarding recorder on ml.training.train_step sees
the model pytree before and after every optimiser step (the boundary is concrete although the step is
pmapped) and asserts that every invariant-filter leaf changed by one common factor (zeros stay zero) and
that some parameter moved; recorders on get_batches and StopCondition.stop count the history. The model
returned by the real ml.train is then put through C07's layer-synchronised and end-to-end equivariance
monitors for every g. Histories with and without a validation pass after each epoch; models that are equivariant by construction, by always-on group averaging, and by group averaging in inference mode only."""
from __future__ import annotations

import numpy as np

from .. import mlgen, probes
from ..ref import group as rgroup
from ..util import result, rng_for, viol
from . import c07

ID = "C09"
RULE = (
    "cases = training histories: tiny equivariant architectures from C07's generator (incl. pseudo-types through normalisation) x "
    "optimiser {sgd, adam, adamw(weight_decay=0.1)} x loss {smse, normalized} x batch size 1..3 incl. non-divisible data set sizes x "
    "1..3 epochs x random data; after every train_step the bank-ratio invariant is evaluated; after the history the returned model "
    "is checked for all g in B_2 / class representatives of B_3. Non-trivial: >=1 optimiser step applied, a non-filter leaf moved, "
    "g != e; distinct by (architecture, optimiser, loss, batch, epochs)."
)
RULE += " Every other history has a validation pass after each epoch; a fixed history trains a conventional net that is equivariant through GroupAverage(inference=True) only."
RULE += " Also: fixed histories (pseudo-types through normalisation, scalar+vector, a pointwise network built on the 1x1 filter bank, a group-averaged conventional network, ONE TrainLoss object shared by a baseline run and the equivariant run), amplified-displacement oracle."
ASSUMPTIONS = ["C07's tolerances", "bank ratio tolerance 1e-5", "one CPU device (pmap over a single device)"]
ANCHORS = ["ginjax.ml.training:train_step", "ginjax.ml.training:train", "ginjax.ml.training:get_batches", "ginjax.ml.layers:ConvContract.individual_convolve"]
MIN_NONTRIVIAL = {"quick": 5, "thorough": 80}
WORKERS = {"quick": 8, "thorough": 16}
TIMEOUT = {"quick": 1500, "thorough": 10800}
MAX_INCONCLUSIVE_FRAC = 0.4


def cases(tier, seed):
    n = 10 if tier == "quick" else 140
    opts = ["sgd", "adam", "adamw"]
    out = [{"D": 2 if i % 5 else 3, "opt": opts[i % 3], "loss": ["smse", "normalized"][(i // 3) % 2]} for i in range(n)]
    # fixed histories: a pseudo-scalar / pseudo-vector type carried through normalisation (parameterisations that are
    # equivariant at initialisation only would be moved off it by the optimiser)
    for j, f in enumerate(FIXED if tier == "thorough" else FIXED[:6] + FIXED[-1:]):
        out.append({"D": 2, "opt": opts[j % 3], "loss": "smse", "cfg": f})
    return out


FIXED = [
    {"cls": "ResNet", "D": 2, "equivariant": False, "kernel_size": 3, "group_average": True, "in_sig": [[[0, 0], 1], [[1, 0], 1]], "out_sig": [[[1, 0], 1]], "depth": 2, "num_blocks": 1, "num_conv": 1, "num_downsamples": 1, "activation": "gelu", "norm": False, "preact": False, "bias": "auto", "bank_ks": [0, 1, 2], "torus": [True, True], "N": [4, 4], "keep_depth": True},
    {"cls": "ResNet", "D": 2, "equivariant": True, "in_sig": [[[0, 0], 2], [[1, 0], 1]], "out_sig": [[[1, 0], 1], [[0, 0], 2]], "depth": 2, "num_blocks": 1, "num_conv": 1, "num_downsamples": 1, "activation": "gelu", "norm": False, "preact": False, "bias": "auto", "bank_ks": [0, 1, 2], "torus": [True, True], "N": [4, 4], "keep_depth": True},
    {"cls": "ResNet", "D": 2, "equivariant": True, "in_sig": [[[0, 1], 1], [[1, 0], 1]], "out_sig": [[[0, 1], 1]], "depth": 1, "num_blocks": 1, "num_conv": 1, "num_downsamples": 1, "activation": "gelu", "norm": True, "preact": True, "bias": "auto", "bank_ks": [0, 1, 2], "torus": [True, True], "N": [4, 4]},
    {"cls": "ConvBlock", "D": 2, "equivariant": True, "in_sig": [[[0, 1], 2], [[1, 1], 1]], "out_sig": [[[0, 1], 2], [[1, 1], 2]], "depth": 1, "num_blocks": 1, "num_conv": 1, "num_downsamples": 1, "activation": "relu", "norm": True, "preact": False, "bias": "mean", "bank_ks": [0, 1, 2], "torus": [False, False], "N": [4, 5]},
    # a pointwise network: every convolution uses the 1x1 filter bank (Kronecker delta for vector -> vector, Levi-Civita for the
    # pseudo pairs): layers of this kind may take a shortcut of their own; the bank must still only ever be rescaled
    {"cls": "ResNet", "D": 2, "equivariant": True, "conv_M": 1, "in_sig": [[[1, 0], 2], [[0, 1], 1]], "out_sig": [[[1, 0], 1], [[1, 1], 1]], "depth": 2, "keep_depth": True, "num_blocks": 1, "num_conv": 1, "num_downsamples": 1, "activation": "gelu", "norm": False, "preact": False, "bias": "auto", "bank_ks": [0, 1, 2], "torus": [True, True], "N": [4, 4]},
    # call history on the stop condition: ONE TrainLoss object is first used to train a conventional baseline and then passed
    # to the training of the equivariant model (one shared kwargs dict, as in ml.benchmark); what the second call returns must
    # still be the equivariant model
    {"cls": "ResNet", "D": 2, "equivariant": True, "shared_stop": True, "kernel_size": 3, "in_sig": [[[0, 0], 1], [[1, 0], 1]], "out_sig": [[[1, 0], 1], [[0, 0], 1]], "depth": 2, "num_blocks": 1, "num_conv": 1, "num_downsamples": 1, "activation": "gelu", "norm": False, "preact": False, "bias": "auto", "bank_ks": [0, 1, 2], "torus": [True, True], "N": [4, 4], "keep_depth": True},
    {"cls": "UNet", "D": 2, "equivariant": True, "in_sig": [[[1, 0], 1], [[0, 1], 1]], "out_sig": [[[0, 1], 1], [[1, 0], 1]], "depth": 1, "num_blocks": 1, "num_conv": 1, "num_downsamples": 1, "activation": "tanh", "norm": True, "preact": False, "bias": "auto", "bank_ks": [0, 1, 2], "torus": [True, True], "N": [4, 4]},
    {"cls": "DilResNet", "D": 2, "equivariant": True, "in_sig": [[[0, 1], 1], [[1, 1], 1]], "out_sig": [[[1, 1], 1]], "depth": 1, "num_blocks": 1, "num_conv": 1, "num_downsamples": 1, "activation": "relu", "norm": True, "preact": False, "bias": "scalar", "bank_ks": [0, 1, 2], "torus": [False, False], "N": [5, 5]},
    # a conventional network that is equivariant through group averaging in INFERENCE mode only (always_average=False,
    # inference=True), trained with a validation pass after every epoch: what ml.train returns must be in the mode it was given
    {"cls": "ResNet", "D": 2, "equivariant": False, "kernel_size": 3, "group_average": "inference", "validation": True, "in_sig": [[[0, 0], 1], [[1, 0], 1]], "out_sig": [[[1, 0], 1]], "depth": 2, "num_blocks": 1, "num_conv": 1, "num_downsamples": 1, "activation": "gelu", "norm": False, "preact": False, "bias": "auto", "bank_ks": [0, 1, 2], "torus": [True, True], "N": [4, 4], "keep_depth": True},
]


class StepMonitor:
    def __init__(self):
        self.viol = []
        self.steps = 0
        self.moved = 0
        self.ratios = []
        self.log = probes.EventLog()
        self.log.enabled = False
        self.batches = 0

    def install(self):
        import ginjax.ml.training as tr

        probes.install_function(tr, "train_step", "ml.train_step", self.log, self._on_step)
        probes.install_function(tr, "get_batches", "ml.get_batches", self.log, self._on_batches)
        return self

    def _on_batches(self, ev):
        self.batches += 1

    def _on_step(self, ev):
        before = ev["args"][1] if len(ev["args"]) > 1 else ev["kwargs"]["model"]
        after = ev["out"][0]
        self.steps += 1
        fb, fa = mlgen.param_leaves(before, only_filters=True), mlgen.param_leaves(after, only_filters=True)
        ratios = []
        for (pa, a), (pb, b) in zip(fb, fa):
            if a.shape != b.shape:
                self.viol.append(viol("bank-shape-changed", f"filter leaf {pa} changed shape"))
                return
            nz = a != 0
            if np.any(b[~nz] != 0):
                self.viol.append(viol("bank-zero-entry-moved", f"step {self.steps}: a zero entry of filter leaf {pa} became non-zero", leaf=pa))
                return
            if np.any(nz):
                ratios.append((b[nz] / a[nz]).astype(np.float64))
        if ratios:
            r = np.concatenate(ratios)
            spread = float(r.max() - r.min())
            self.ratios.append(float(np.median(r)))
            if spread > 1e-5 * max(1.0, abs(float(np.median(r)))):
                self.viol.append(viol("bank-not-uniformly-rescaled", f"step {self.steps}: invariant filters changed by ratios in [{r.min():.6f}, {r.max():.6f}] (not one common factor)", min=float(r.min()), max=float(r.max())))
                return
        pb_, pa_ = mlgen.param_leaves(before), mlgen.param_leaves(after)
        if any(not np.array_equal(a, b) for (_, a), (_, b) in zip(pb_, pa_)):
            self.moved += 1

    def take(self):
        v, self.viol = self.viol, []
        return v


_mon = None


def setup(ctx):
    global _mon
    c07.setup(ctx)
    _mon = StepMonitor().install()
    return {}


def run(case, ctx):
    import contextlib
    import io

    import jax
    import optax
    import ginjax.ml as ml

    rng = rng_for(ctx["seed"], ID, case["i"])
    D = case["D"]
    cfg = mlgen.gen_model_cfg(rng, D, classes=("UNet", "ResNet", "ResNet", "DilResNet", "ConvBlock", "ConvBlockPre"))
    if case.get("cfg"):
        cfg = dict(case["cfg"])
        cfg["stable"] = True
    wrap_ga = bool(case.get("cfg", {}).get("group_average"))
    cfg["depth"] = cfg["depth"] if cfg.get("keep_depth") else 1
    if cfg.get("mid") and cfg["cls"] == "UNet":
        # the U-Net derives the channel counts of its levels from `depth` and takes only the TYPES from mid_keys: explicit
        # mid keys must carry `depth` channels (the generator guarantees it; keep it true after the override above)
        cfg["mid"] = [[t, cfg["depth"]] for t, _ in cfg["mid"]]
    cfg["num_blocks"] = 1
    if cfg["cls"] == "UNet":
        cfg["num_downsamples"] = 1
        cfg["N"] = [4] * D
    else:
        cfg["N"] = [4] * D if D == 3 else cfg["N"]
    L, B, epochs = int(rng.integers(2, 6)), int(rng.integers(1, 4)), int(rng.integers(1, 4))
    B = min(B, L)
    key = {k: cfg[k] for k in ("cls", "D", "in_sig", "out_sig", "activation", "norm", "preact", "bias", "N", "num_conv")}
    key.update(opt=case["opt"], loss=case["loss"], L=L, B=B, epochs=epochs)
    sink = io.StringIO()
    viols, evals = [], 0
    extrap = ["not-run"]
    from_init = False
    _mon.take()
    steps0, moved0 = _mon.steps, _mon.moved
    G = rgroup.hyperoctahedral(D) if D == 2 else rgroup.conjugacy_class_reps(D)
    try:
        with contextlib.redirect_stdout(sink):
            # every second history starts from the untouched initial parameters (what real training does); the others
            # from a perturbed point, so that the optimiser also moves parameters that start at special values
            model = mlgen.build_model(cfg, case["i"])
            if wrap_ga:
                # an equivariant model of the other kind: a conventional network made equivariant by group averaging
                import ginjax.models as models

                inf_only = case["cfg"]["group_average"] == "inference"
                model = models.GroupAverage(model, [np.asarray(g) for g in rgroup.hyperoctahedral(D)], always_average=not inf_only, inference=inf_only)
            from_init = case["i"] % 2 == 0
            if not from_init:
                model = mlgen.perturb(model, rng, 0.1)
            in_sig, out_sig = mlgen.sig_of(cfg["in_sig"]), mlgen.sig_of(cfg["out_sig"])
            stable, reach_out, _ = mlgen.type_flow(cfg) if cfg.get("equivariant", True) else (True, [t for t, _ in out_sig], [])
            X = mlgen.random_multi(rng, in_sig, D, tuple(cfg["N"]), tuple(cfg["torus"]), lead=(L,))
            Y = mlgen.random_multi(rng, [(t, c) for t, c in out_sig if t in reach_out], D, tuple(cfg["N"]), tuple(cfg["torus"]), lead=(L,))
            lossf = ml.smse_loss if case["loss"] == "smse" else ml.normalized_smse_loss
            # every other history (and the fixed ones that ask for it) has a validation pass after each epoch
            val = {}
            if case["i"] % 2 == 1 or cfg.get("validation"):
                rv = np.random.default_rng([ctx["seed"], 9, case["i"], 5])  # own stream: the history's other draws do not move
                Lv = B + int(rv.integers(0, 3))  # at least one full validation batch (floor(Lv/B) >= 1 is the loop's domain)
                val = dict(validation_X=mlgen.random_multi(rv, in_sig, D, tuple(cfg["N"]), tuple(cfg["torus"]), lead=(Lv,)),
                           validation_Y=mlgen.random_multi(rv, [(t, c) for t, c in out_sig if t in reach_out], D, tuple(cfg["N"]), tuple(cfg["torus"]), lead=(Lv,)))

            def map_and_loss(m, x, y, aux):
                out = jax.vmap(lambda xi: m(xi)[0])(x)
                return lossf(out, y), aux

            # a history that diverges numerically (non-finite parameters) is repeated with a 10x smaller step size
            shared = bool(cfg.get("shared_stop"))
            for shrink in (1.0, 0.1, 0.01):
                opt = {"sgd": optax.sgd(2e-3 * shrink), "adam": optax.adam(1e-2 * shrink), "adamw": optax.adamw(1e-2 * shrink, weight_decay=0.1)}[case["opt"]]
                cond = ml.EpochStop(epochs)
                if shared:
                    cond = ml.TrainLoss(patience=0, min_delta=0.05)
                    baseline = mlgen.build_model(dict(cfg, equivariant=False), case["i"] + 1)
                    ml.train(X, Y, map_and_loss, baseline, jax.random.PRNGKey(case["i"] + 7), cond, B, optax.adam(3e-2))
                    _mon.take()
                    steps0, moved0 = _mon.steps, _mon.moved
                trained = ml.train(X, Y, map_and_loss, model, jax.random.PRNGKey(case["i"]), cond, B, opt, **val)[0]
                if shared and jax.tree_util.tree_structure(trained) != jax.tree_util.tree_structure(model):
                    viols.append(viol("train-returned-foreign-model", f"ml.train was given an equivariant {cfg['cls']} and a stop condition that had been used before; it returned a model of another structure (the earlier run's); {key}"))
                evals += 1
                if all(np.all(np.isfinite(a)) for _, a in mlgen.param_leaves(trained)):
                    break
                _mon.take()
                steps0, moved0 = _mon.steps, _mon.moved
            viols += _mon.take()
            steps = _mon.steps - steps0
            moved = _mon.moved - moved0
            if steps != epochs * (L // B) and not shared:
                viols.append(viol("train-step-count", f"{steps} optimiser steps observed, expected {epochs * (L // B)}; {key}"))
            res = None
            if not all(np.all(np.isfinite(a)) for _, a in mlgen.param_leaves(trained)):
                return {"status": "inconclusive", "key": str(key), "nontrivial": False, "why": "training diverged numerically (non-finite parameters): history not judged", "evals": evals}
            if not viols:
                for attempt in range(3):
                    x = mlgen.random_multi(rng, in_sig, D, tuple(cfg["N"]), tuple(cfg["torus"]))
                    res = c07.check_model(trained, cfg, x, G, rng, shifts=not wrap_ga)  # (a group-averaged conventional net is not translation equivariant)
                    evals += 1 + res["n_events"] * len(G) + len(G)
                    if res["status"] in ("held", "violated"):
                        break
                if res["status"] not in ("held", "violated"):
                    return {"status": "inconclusive", "key": str(key), "nontrivial": False, "why": f"{res['status']} after 3 draws (kappa={res.get('kappa')})", "evals": evals}
                for v in res["viols"]:
                    v = dict(v)
                    v["mechanism"] = "after-training-" + v["mechanism"]
                    v["msg"] = f"after {steps} {case['opt']} steps: " + v["msg"]
                    viols.append(v)
                # the symmetry is structural, so it must hold along the whole ray init -> trained: amplify the
                # optimiser's displacement (x30) to make a small drift in a non-equivariant direction visible
                if not viols:
                    import jax.numpy as jnp

                    def amp(path, a, b):
                        names = [getattr(q, "name", None) for q in path]
                        if hasattr(a, "dtype") and jnp.issubdtype(a.dtype, jnp.inexact) and "invariant_filters" not in names:
                            return a + 30.0 * (b - a)
                        return b

                    model_amp = jax.tree_util.tree_map_with_path(amp, model, trained)
                    res2 = c07.check_model(model_amp, cfg, x, G, rng, shifts=False)
                    evals += 1 + res2["n_events"] * len(G) + len(G)
                    extrap[0] = res2["status"]
                    for v in res2["viols"]:
                        v = dict(v)
                        v["mechanism"] = "training-direction-" + v["mechanism"]
                        v["msg"] = f"parameters moved by {steps} {case['opt']} steps, displacement amplified x30: " + v["msg"]
                        viols.append(v)
    except Exception as e:
        import traceback

        viols.append(viol(f"training-exception-{type(e).__name__}", f"{type(e).__name__}: {str(e)[:300]}; {key}; {traceback.format_exc()[-600:]}"))
        steps = moved = 1
    nontrivial = steps >= 1 and moved >= 1
    return result(key, viols, nontrivial, evals=evals, noise=(res or {}).get("noise", 0.0) if "res" in dir() and res else 0.0,
                  obs={"train_steps_monitored": steps, "steps_with_moved_parameters": moved, "histories": 1},
                  hist={"cls": cfg["cls"], "D": D, "opt": case["opt"], "loss": case["loss"], "norm": cfg["norm"], "epochs": epochs, "validation": bool(val) if "val" in dir() else False, "start": "init" if from_init else "perturbed", "extrapolated_model": extrap[0], "bank_ratio": [round(r, 5) for r in _mon.ratios[-1:]]},
                  sample={"cfg": key, "steps": steps, "bank_ratio_last": _mon.ratios[-1] if _mon.ratios else None})


def finalize(tier, results, obs, hist, metas):
    problems = []
    if obs.get("train_steps_monitored", 0) < 5:
        problems.append("fewer than 5 optimiser steps monitored")
    return {}, problems
