"""C08 — normalisation, nonlinearity and pooling blocks commute with the group action.

P-monitor (paired execution) on the real blocks: class-level recorders on GroupNorm/LayerNorm/
VectorNeuronNonlinear/MaxNormPool.__call__ and forwarding recorders on geom.max_pool / average_pool log
the run on x and the runs on g.x; outputs must be related by g under each block's declared type. All
learnable parameters are random (away from their initial ones/zeros); default eps. Max-pool candidates
from executions with a near tie between unequal tensors are re-drawn (property's own side condition)."""
from __future__ import annotations

import numpy as np

from .. import mlgen, probes
from ..ref import action as ract, group as rgroup
from ..util import defect, result, rng_for, viol

ID = "C08"
RULE = (
    "cases = (block in {GroupNorm, LayerNorm, VectorNeuronNonlinear, MaxNormPool, geom.max_pool, geom.average_pool, "
    "MultiImage.average_pool, GeometricImage.unpool}, d in {2,3}, types the block accepts incl. pseudo-scalars/vectors, channel "
    "counts and group divisors, patch lengths 2/3, activation) with all parameters random; inputs generic + structured (zero, "
    "constant, one-hot, one active channel); all g in B_d (d=3 quick: conjugacy-class representatives + 2) and translations by "
    "multiples of the patch length. Non-trivial: parameters differ from initial values (where the block has any), g != e and "
    "output not identically zero; distinct by configuration."
)
RULE += " Near-domain stratum: average pooling of extents that are not multiples of the patch length (refused by the library; a tree that accepts them must commute). Also: structured special parameter values (zero / identical rows, zero column, all zeros, all ones) in every third parametrised block, explicit comparator image, GeometricImage pooling methods, magnitudes 1e-3..1e3."
ASSUMPTIONS = ["reference action", "zones: defect <= 1e-4 held, >= 1e-3 violated, between re-drawn; structured edge inputs are only judged at >= 1e-3", "near-tie guard: relative norm gap < 1e-3 between unequal tensors in a patch => re-draw"]
ANCHORS = [
    "ginjax.ml.layers:_group_norm_K1", "ginjax.ml.layers:GroupNorm.__call__", "ginjax.ml.layers:VectorNeuronNonlinear.__call__", "ginjax.ml.layers:MaxNormPool.__call__",
    "ginjax.geometric.functional_geometric_image:max_pool", "ginjax.geometric.functional_geometric_image:average_pool",
    "ginjax.geometric.geometric_image:GeometricImage.unpool", "ginjax.geometric.multi_image:MultiImage.average_pool",
]
MIN_NONTRIVIAL = {"quick": 40, "thorough": 1500}
WORKERS = {"quick": 8, "thorough": 16}
TIMEOUT = {"quick": 1200, "thorough": 7200}
TAU = 1e-4
KINDS = ["groupnorm", "layernorm", "vn", "maxnormpool", "max_pool_fn", "average_pool_fn", "mi_average_pool", "unpool", "gi_max_pool", "gi_average_pool"]
INPUTS = ["normal", "normal", "normal", "zero", "constant", "onehot", "onechannel"]


def cases(tier, seed):
    n = 96 if tier == "quick" else 4800
    return [{"kind": KINDS[i % len(KINDS)], "D": 2 if (i // len(KINDS)) % 3 else 3} for i in range(n)]


_log = probes.EventLog()
_log.enabled = False
_calls = {}


def _count(name):
    def f(ev):
        _calls[name] = _calls.get(name, 0) + 1
    return f


def setup(ctx):
    import ginjax.geometric.functional_geometric_image as F
    import ginjax.ml.layers as L
    from ginjax.geometric.geometric_image import GeometricImage
    from ginjax.geometric.multi_image import MultiImage

    for cls in (L.GroupNorm, L.VectorNeuronNonlinear, L.MaxNormPool):
        probes.wrap_method(cls, "__call__", cls.__name__, _log, _count(cls.__name__))
    probes.install_function(F, "max_pool", "geom.max_pool", _log, _count("geom.max_pool"))
    probes.install_function(F, "average_pool", "geom.average_pool", _log, _count("geom.average_pool"))
    probes.wrap_method(GeometricImage, "unpool", "GeometricImage.unpool", _log, _count("GeometricImage.unpool"))
    probes.wrap_method(MultiImage, "average_pool", "MultiImage.average_pool", _log, _count("MultiImage.average_pool"))
    return {}


def group_sample(tier, D, rng):
    G = rgroup.hyperoctahedral(D)
    if D == 2 or tier == "thorough":
        return G
    return rgroup.conjugacy_class_reps(D) + [G[int(i)] for i in rng.choice(len(G), size=2, replace=False)]


def build(kind, D, rng, key_int):
    """Returns (f: MultiImage->MultiImage, sig, spatial extents, config dict, patch_len or None, has_params)."""
    import jax
    import jax.numpy as jnp
    import ginjax.geometric as geom
    import ginjax.ml as ml

    key = jax.random.PRNGKey(key_int)
    act_name = ["relu", "gelu", "tanh"][int(rng.integers(3))]
    act = {"relu": jax.nn.relu, "gelu": jax.nn.gelu, "tanh": jax.nn.tanh}[act_name]
    if kind in ("groupnorm", "layernorm"):
        pool = [(0, 0), (0, 1), (1, 0), (1, 1)]
        nt = int(rng.integers(1, 4))
        types = [pool[i] for i in rng.choice(4, size=nt, replace=False)]
        groups = int([1, 2, 3][int(rng.integers(3))]) if kind == "groupnorm" else 1
        sig = [(t, groups * int(rng.integers(1, 3))) for t in types]
        sp = tuple(int(v) for v in rng.integers(3, 6 if D == 2 else 4, size=D))
        layer = ml.GroupNorm(mlgen.signature(sig), D, groups) if kind == "groupnorm" else ml.LayerNorm(mlgen.signature(sig), D)
        layer = mlgen.perturb(layer, rng, 0.7)
        if key_int % 3 == 0:
            layer = mlgen.special_values(layer, rng)
        f = lambda x: layer(x)
        f.layer = layer
        return f, sig, sp, {"groups": groups}, None, True
    if kind == "vn":
        pool = [(k, p) for k in range(3 if D == 2 else 2) for p in (0, 1)]
        nt = int(rng.integers(1, 4))
        types = [pool[i] for i in rng.choice(len(pool), size=nt, replace=False)]
        sig = [(t, int(rng.integers(1, 5))) for t in types]
        sp = tuple(int(v) for v in rng.integers(2, 5, size=D))
        layer = ml.VectorNeuronNonlinear(mlgen.signature(sig), D, act, key=key)
        layer = mlgen.perturb(layer, rng, 0.7)
        if key_int % 3 == 0:
            layer = mlgen.special_values(layer, rng)  # zero / identical rows of the mixing weights, all-zero or all-one weights
        return (lambda x: layer(x)), sig, sp, {"activation": act_name, "special_params": key_int % 3 == 0}, None, any(t != (0, 0) for t in types)
    patch = int([2, 2, 3][int(rng.integers(3))]) if D == 2 else 2
    pool = [(k, p) for k in range(3 if D == 2 else 2) for p in (0, 1)]
    nt = int(rng.integers(1, 3))
    types = [pool[i] for i in rng.choice(len(pool), size=nt, replace=False)]
    sig = [(t, int(rng.integers(1, 4))) for t in types]
    sp = tuple(patch * int(v) for v in rng.integers(1, 4 if D == 2 else 3, size=D))
    cfg = {"patch": patch}
    if kind == "maxnormpool":
        layer = ml.MaxNormPool(patch, True)
        return (lambda x: layer(x)), sig, sp, cfg, patch, False
    if kind == "mi_average_pool":
        return (lambda x: x.average_pool(patch)), sig, sp, cfg, patch, False

    def per_image(fn):
        def f(x):
            out = {}
            for (k, p), blk in x.data.items():
                out[(k, p)] = jnp.stack([fn(ch, k, p, x) for ch in blk])
            return geom.MultiImage(out, x.D, x.is_torus)
        return f

    if kind == "max_pool_fn":
        if rng.integers(0, 3) == 0:
            # non-default argument: an explicit comparator image (here the squared norm, which moves with the image)
            cfg["comparator"] = "explicit"
            return per_image(lambda ch, k, p, x: geom.max_pool(D, ch, patch, False, comparator_image=jnp.sum(ch.reshape(ch.shape[:D] + (-1,)) ** 2, axis=-1))), sig, sp, cfg, patch, False
        return per_image(lambda ch, k, p, x: geom.max_pool(D, ch, patch, True)), sig, sp, cfg, patch, False
    if kind == "average_pool_fn":
        return per_image(lambda ch, k, p, x: geom.average_pool(D, ch, patch)), sig, sp, cfg, patch, False
    if kind == "gi_max_pool":
        return per_image(lambda ch, k, p, x: geom.GeometricImage(ch, p, D, x.is_torus).max_pool(patch, True).data), sig, sp, cfg, patch, False
    if kind == "gi_average_pool":
        return per_image(lambda ch, k, p, x: geom.GeometricImage(ch, p, D, x.is_torus).average_pool(patch).data), sig, sp, cfg, patch, False
    if kind == "unpool":
        sp = tuple(int(v) for v in rng.integers(1, 4 if D == 2 else 3, size=D))
        cfg["upsample"] = True
        return per_image(lambda ch, k, p, x: geom.GeometricImage(ch, p, D, x.is_torus).unpool(patch).data), sig, sp, cfg, patch, False
    raise ValueError(kind)


def run(case, ctx):
    import contextlib
    import io

    rng = rng_for(ctx["seed"], ID, case["i"])
    kind, D = case["kind"], case["D"]
    sink = io.StringIO()
    viols, evals, noise, redraws = [], 0, 0.0, 0
    edge_skipped = [0]
    try:
        with contextlib.redirect_stdout(sink):
            f, sig, sp, cfg, patch, has_params = build(kind, D, rng, case["i"])
            torus = tuple(bool(v) for v in rng.integers(0, 2, size=D))
            # near-domain stratum (reject-or-commute): average pooling of an image whose extents are not multiples of the patch
            # length is refused by the library (a patch grid anchored at the origin cannot commute with a reflection there).
            # A tree that accepts such an image claims a result, which must then commute like any other; a refusal is fine.
            ragged = kind in ("average_pool_fn", "mi_average_pool", "gi_average_pool") and ((case["i"] // len(KINDS)) % 3 == 1 or (case["i"] // len(KINDS)) % 6 == 3)
            if ragged:
                sp = list(sp)
                j = int(rng.integers(D))
                sp[j] = sp[j] + int(rng.integers(1, patch))
                sp = tuple(sp)
                cfg = {**cfg, "ragged_extents": True}
            key = {"kind": kind, "D": D, "sig": sig, "sp": sp, **cfg}
            G = group_sample(ctx["tier"], D, rng)
            nontrivial = False
            inputs = [INPUTS[int(rng.integers(len(INPUTS)))]] if case["i"] % 2 else ["normal"]
            inputs = ["normal"] + [i for i in inputs if i != "normal"]
            for inp in inputs:
                worst = float("nan")  # (all four draws may be rejected as near ties before anything is measured)
                for attempt in range(4):
                    x = mlgen.random_multi(rng, sig, D, sp, torus, kind=inp, scale=float([1.0, 1.0, 1e-3, 1e3][int(rng.integers(4))]))
                    if patch and kind in ("maxnormpool", "max_pool_fn", "gi_max_pool") and inp == "normal" and any(mlgen.near_tie(v, D, patch) for v in x.data.values()):
                        redraws += 1
                        continue
                    if ragged:
                        try:
                            y = f(x)
                        except Exception:
                            return result(key, [], False, evals=0, obs={"near_domain_refused": 1}, hist={"kind": kind + "-ragged", "D": D})
                    else:
                        y = f(x)
                    evals += 1
                    Y = probes.blocks(y)
                    if inp == "normal":
                        nontrivial = nontrivial or any(np.any(v != 0) for v in Y.values())
                    S = mlgen.trace_scale(x, y)
                    worst, wg, wmsg = 0.0, None, None
                    for g in G:
                        ygx = f(mlgen.act_mi(x, g))
                        evals += 1
                        d, msg = mlgen.compare(ygx, mlgen.act_blocks(Y, D, g, 1), 1, S)
                        if d > worst:
                            worst, wg, wmsg = d, g, msg
                    if patch and kind != "unpool" and worst < 10 * TAU and not ragged:
                        shift = tuple(patch * int(rng.integers(0, n // patch)) for n in sp)
                        ys = f(mlgen.roll_mi(x, shift))
                        evals += 1
                        want = {t: np.roll(v, tuple(s // patch for s in shift), axis=tuple(range(1, 1 + D))) for t, v in Y.items()}
                        d, msg = mlgen.compare(ys, want, 1, S)
                        if d > worst:
                            worst, wg, wmsg = d, np.eye(D, dtype=int), f"translation by {shift}: {msg}"
                    if kind == "unpool" and worst < 10 * TAU:
                        shift = tuple(int(rng.integers(0, n)) for n in sp)
                        ys = f(mlgen.roll_mi(x, shift))
                        evals += 1
                        want = {t: np.roll(v, tuple(s * patch for s in shift), axis=tuple(range(1, 1 + D))) for t, v in Y.items()}
                        d, msg = mlgen.compare(ys, want, 1, S)
                        if d > worst:
                            worst, wg, wmsg = d, np.eye(D, dtype=int), f"translation by {shift}: {msg}"
                    if worst <= TAU:
                        noise = max(noise, worst)
                        break
                    if worst >= 10 * TAU and inp != "normal":
                        # edge inputs can be arbitrarily ill-conditioned (constant input through a whitening: 1/sqrt(eps)):
                        # judge them against the measured conditioning, skip them when it is hopeless
                        kappa = mlgen.sensitivity(f, x, rng)
                        if 100 * kappa * 1.2e-7 >= worst / 3:
                            edge_skipped[0] += 1
                            break
                    if worst >= 10 * TAU:
                        types = [t for t, _ in sig]
                        mech = "block-not-equivariant"
                        if kind in ("groupnorm", "layernorm") and (0, 1) in types and wg is not None and rgroup.det(wg) == -1 and has_pseudoscalar_bias(f) and pseudo_scalar_only(f, x, wg, D, S):
                            mech = "D6-groupnorm-pseudoscalar-additive-bias"
                        viols.append(viol(mech, f"{kind}(g.x) != g.{kind}(x): defect {worst:.3g} ({wmsg}) for g={None if wg is None else wg.tolist()} input={inp}; {key}", key=key, g=None if wg is None else wg.tolist(), input=inp))
                        break
                    if inp != "normal":
                        break  # structured edge inputs are only judged outside the grey zone
                    redraws += 1
                else:
                    if inp == "normal":
                        return {"status": "inconclusive", "key": str(key), "nontrivial": False, "why": f"grey zone / near ties after 4 draws (defect {worst:.3g})", "evals": evals}
                if viols:
                    break
    except Exception as e:
        import traceback

        key = {"kind": kind, "D": D}
        viols.append(viol(f"block-exception-{type(e).__name__}", f"{type(e).__name__}: {str(e)[:300]}; {traceback.format_exc()[-500:]}"))
        nontrivial = True
    return result(key, viols, nontrivial, evals=evals, noise=noise, obs={"paired_block_executions": evals, "redraws": redraws, "ill_conditioned_edge_inputs_skipped": edge_skipped[0]},
                  hist={"kind": kind, "D": D, "types": [str(t) for t, _ in sig] if "sig" in dir() else [], "inputs": inputs if "inputs" in dir() else []}, sample={"key": key, "noise": noise})


def has_pseudoscalar_bias(f):
    """Mechanism predicate for D6: the layer holds a non-zero additive bias for the (0,1) type."""
    vn = getattr(getattr(f, "layer", None), "vanilla_norm", {}).get((0, 1))
    b = getattr(vn, "bias", None)
    return b is not None and bool(np.any(np.asarray(b) != 0))


def pseudo_scalar_only(f, x, g, D, S):
    """Mechanism predicate for D6: the defect sits in the (0,1) block only."""
    Y = probes.blocks(f(x))
    ygx = probes.blocks(f(mlgen.act_mi(x, g)))
    want = mlgen.act_blocks(Y, D, g, 1)
    bad = [t for t in Y if defect(ygx[t], want[t], S) > 10 * TAU]
    return bad == [(0, 1)]


def finalize(tier, results, obs, hist, metas):
    calls = {}
    for m in metas:
        for k, v in (m.get("monitor") or {}).items():
            calls[k] = calls.get(k, 0) + v
    need = ["GroupNorm", "VectorNeuronNonlinear", "MaxNormPool", "geom.max_pool", "geom.average_pool", "GeometricImage.unpool", "MultiImage.average_pool"]
    missing = [k for k in need if not calls.get(k)]
    return {"probe_calls": calls}, ([f"probes never fired: {missing}"] if missing else [])


def teardown(ctx):
    return {"monitor": dict(_calls)}
