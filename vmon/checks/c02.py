"""C02 — the group action is a genuine, type-correct group action.

R-monitor (monitors.ActionMonitor) on the three entry points + trace laws (identity, composition,
inverse, linearity, pixel bijection with unique ids, per-pixel Frobenius norm multiset).
Integer lattice data: comparisons are exact (slack 1e-4 relative to scale). Variants: realistic image sizes, a reusable
group-element buffer overwritten in place, int32 / NumPy / float64-under-x64 operands (exact signed permutation); tensor orders up to 9 (d=2) / 7 (d=3) and the single-tensor entry tensor_times_gg."""
from __future__ import annotations

import itertools as it

import contextlib

import numpy as np

from .. import monitors
from ..ref import action as ract, group as rgroup
from ..util import err_exact, lattice, result, rng_for, small, viol

ID = "C02"
RULE = (
    "cases = (entry point, D, spatial shape incl. pairwise-distinct extents and extent 1, k, parity, leading axes); "
    "each case drives the real times_group_element for all g in B_d (array / GeometricImage / MultiImage entry) on "
    "integer lattice images, every concrete return is compared with the NumPy reference action by the probe, plus "
    "identity/composition/inverse/linearity/bijection/norm laws on the recorded results. Non-trivial: g != e and "
    "(>=2 distinct extents or k>=1); distinct by (entry, D, shape, k, p, n_lead)."
)
RULE += " Narrow containers (uint8/uint16/int16/bool/float16/bfloat16 with small values) are compared by value with the defining formula. Also: realistic sizes (64x64, 80x60, 16^3, ...), one reusable group-element buffer overwritten in place, int32 / NumPy / float64-under-x64 operands."
RULE += " High tensor orders: k=4..9 (d=2), k=4..7 (d=3) on small boxes through the array, GeometricImage and MultiImage entry points."
ASSUMPTIONS = [
    "reference action vmon/ref/action.py (self-tested: identity, composition, inverse, brute-force loops)",
    "float32 arithmetic on small integers is exact",
]
ANCHORS = [
    "ginjax.geometric.functional_geometric_image:tensor_times_gg",
    "ginjax.geometric.functional_geometric_image:get_rotated_keys",
    "ginjax.geometric.functional_geometric_image:times_group_element",
    "ginjax.geometric.geometric_image:GeometricImage.times_group_element",
    "ginjax.geometric.multi_image:MultiImage.times_group_element",
    "ginjax.geometric.common:make_all_operators",
]
MIN_NONTRIVIAL = {"quick": 40, "thorough": 150}
WORKERS = {"quick": 8, "thorough": 16}
TIMEOUT = {"quick": 900, "thorough": 5400}

SHAPES = {
    "quick": {
        1: [(1,), (4,), (5,)],
        2: [(3, 3), (2, 3), (4, 1), (1, 1), (5, 2), (4, 4)],
        3: [(2, 2, 2), (2, 3, 4), (1, 2, 3), (3, 3, 2), (3, 1, 1), (2, 2, 3)],
    },
    "thorough": {
        1: [(1,), (2,), (4,), (5,), (7,)],
        2: [(3, 3), (2, 3), (4, 1), (1, 1), (5, 2), (4, 4), (1, 6), (6, 5), (2, 2), (7, 3)],
        3: [(2, 2, 2), (2, 3, 4), (1, 2, 3), (3, 3, 2), (3, 1, 1), (2, 2, 3), (4, 3, 2), (3, 3, 3), (1, 1, 4), (5, 2, 3), (2, 4, 2), (3, 4, 5)],
    },
}
LEADS = [(), (3,), (2, 3), (1,), (5, 2)]
SIGS = [
    [(0, 0), (1, 0)],
    [(1, 1), (0, 1), (2, 0)],
    [(0, 0)],
    [(2, 1), (1, 0), (0, 0), (0, 1)],
    [(1, 0), (1, 1)],
    [(3, 0), (0, 0)],
]


def cases(tier, seed):
    out = []
    sh = SHAPES[tier]
    for D in (1, 2, 3):
        ks = (0,) if D == 1 else (0, 1, 2, 3)
        for shape in sh[D]:
            for k in ks:
                for p in (0, 1):
                    out.append({"kind": "single", "D": D, "shape": list(shape), "k": k, "p": p})
    # realistic-size images (a fast path gated on the number of pixels would never be entered by the small shapes above)
    for D, shape in ((2, (64, 64)), (2, (80, 60)), (3, (16, 16, 16)), (3, (20, 10, 8)), (2, (128, 3)), (1, (5000,))):
        for k, p in (((0, 0), (1, 1)) if D > 1 else ((0, 1),)):
            out.append({"kind": "single", "D": D, "shape": list(shape), "k": k, "p": p, "large": True})
    out.append({"kind": "multi", "D": 2, "shape": [64, 64], "lead": [2], "sig": [[0, 1], [1, 0]], "torus": [True, False]})
    out.append({"kind": "multi", "D": 3, "shape": [16, 16, 16], "lead": [], "sig": [[1, 1], [0, 0]], "torus": [True, False, False]})
    # multi-image entry
    rng = np.random.default_rng([seed, 2, 999])
    n_mi = 40 if tier == "quick" else 600
    for j in range(n_mi):
        D = int(rng.choice([1, 2, 2, 3, 3]))
        shape = sh[D][int(rng.integers(len(sh[D])))]
        lead = LEADS[j % len(LEADS)]
        sig = SIGS[int(rng.integers(len(SIGS)))]
        if D == 1:
            sig = [(0, 0), (0, 1)][: 1 + j % 2]
        if D == 3:
            sig = [t for t in sig if t[0] <= 2]
        torus = [bool(v) for v in rng.integers(0, 2, size=D)]
        out.append({"kind": "multi", "D": D, "shape": list(shape), "lead": list(lead), "sig": [list(t) for t in sig], "torus": torus})
    # high tensor orders (products of a few low-order leaves reach them; index-letter bookkeeping of the einsum strings only
    # shows there): every order the library's subscript alphabet admits on small boxes, both entry points
    for D, shape, ks in ((2, (2, 3), (4, 5, 6, 7, 8, 9)), (3, (1, 2, 3), (4, 5, 6, 7)), (3, (2, 2, 2), (6,))):
        for k in ks:
            out.append({"kind": "single", "D": D, "shape": list(shape), "k": k, "p": k % 2, "high": True})
    out.append({"kind": "multi", "D": 2, "shape": [3, 2], "lead": [2], "sig": [[6, 1], [1, 0], [7, 0]], "torus": [True, False]})
    out.append({"kind": "multi", "D": 3, "shape": [2, 1, 2], "lead": [], "sig": [[6, 0], [0, 1]], "torus": [False, True, False]})
    if tier == "thorough":
        out.insert(0, {"kind": "suite"})
    return out


_mon = None
_lib_ops = {}


def setup(ctx):
    global _mon
    import ginjax.geometric as geom  # noqa: F401

    st = {}
    st.update(rgroup.selftest())
    st.update(ract.selftest())
    _mon = monitors.ActionMonitor().install()
    return st


def lib_group(D):
    """The library's own operators (make_all_operators) must be exactly B_d."""
    import ginjax.geometric as geom

    if D not in _lib_ops:
        _lib_ops[D] = [np.asarray(g) for g in geom.make_all_operators(D)]
    return _lib_ops[D]


def pairs_for(tier, D, G, rng):
    n = len(G)
    allp = [(a, b) for a in range(n) for b in range(n)]
    if D <= 2 or tier == "thorough":
        return allp
    idx = rng.choice(len(allp), size=64, replace=False)
    return [allp[i] for i in idx]


def run(case, ctx):
    if case["kind"] == "suite":
        from .. import suite

        return suite.run_suite("action")
    if case["kind"] == "single":
        return run_single(case, ctx)
    return run_multi(case, ctx)


def run_single(case, ctx):
    import jax.numpy as jnp
    import ginjax.geometric as geom

    D, shape, k, p = case["D"], tuple(case["shape"]), case["k"], case["p"]
    rng = rng_for(ctx["seed"], ID, case["i"])
    key = f"single D={D} shape={shape} k={k} p={p}"
    G = rgroup.hyperoctahedral(D)
    viols = []
    evals = 0
    # the library's generated group is B_d
    lib = lib_group(D)
    if {rgroup.key(g) for g in lib} != {rgroup.key(g) for g in G} or len(lib) != len(G):
        viols.append(viol("group-generation", f"make_all_operators({D}) is not the hyperoctahedral group: {len(lib)} elements"))
    A = lattice(rng, shape + (D,) * k)
    B_ = lattice(rng, shape + (D,) * k)
    torus = tuple(bool(v) for v in rng.integers(0, 2, size=D))
    _mon.take()
    outs = {}
    # every other case hands over the group elements in ONE reusable NumPy buffer that is overwritten in place between the
    # calls (a caller accumulating g <- r @ g): the result may depend on the buffer's contents only, never on its identity
    buf = np.zeros((D, D), dtype=G[0].dtype) if case["i"] % 2 else None
    for gi, g in enumerate(G):
        try:
            if buf is not None:
                buf[...] = g
                g = buf
            if False:
                pass
            else:
                o = geom.times_group_element(D, jnp.asarray(A), p, g)
                img = geom.GeometricImage(jnp.asarray(A), p, D, torus)
                o2 = img.times_group_element(g)
                evals += 1
                if err_exact(o2.data, o) > 1e-4:
                    viols.append(viol("entry-points-disagree", f"GeometricImage vs array entry differ for {key} g={g.tolist()}"))
            outs[gi] = np.asarray(o)
            evals += 1
        except Exception as e:  # the operation has no result where the property says it has one
            viols.append(viol(monitors.classify_action(D, shape, g, "array", exc=e), f"times_group_element raised {type(e).__name__}: {e} for {key} g={g.tolist()}"))
    viols += _mon.take()
    if not viols:
        e_idx = [i for i, g in enumerate(G) if np.array_equal(g, np.eye(D, dtype=int))][0]
        if err_exact(outs[e_idx], A) > 0:
            viols.append(viol("identity-law", f"identity does not act trivially: {key}"))
        # composition / inverse on the recorded results, using the real function for the second step
        index = {rgroup.key(g): i for i, g in enumerate(G)}
        pair_list = pairs_for(ctx["tier"], D, G, rng)
        if case.get("large") or case.get("high"):
            pair_list = [pair_list[int(j)] for j in rng.choice(len(pair_list), size=min(24, len(pair_list)), replace=False)]
        for a, b in pair_list:
            g, h = G[a], G[b]
            try:
                gh = np.asarray(geom.times_group_element(D, jnp.asarray(outs[b]), p, g))
            except Exception as e:
                viols.append(viol(monitors.classify_action(D, outs[b].shape[:D], g, "array", exc=e), f"second action raised {e}"))
                break
            evals += 1
            want = outs[index[rgroup.key(g @ h)]]
            if err_exact(gh, want) > 1e-4:
                viols.append(viol(monitors.classify_action(D, outs[b].shape[:D], g, "array"), f"(gh).A != g.(h.A): {key} g={g.tolist()} h={h.tolist()}", g=g.tolist(), h=h.tolist(), got=small(gh), want=small(want)))
                break
        viols += _mon.take()
        # linearity, bijection, norms on a sample of g
        ids = np.arange(int(np.prod(shape)), dtype=np.float32).reshape(shape) + 1
        for gi in rng.choice(len(G), size=min(len(G), 8), replace=False):
            g = G[int(gi)]
            lin = np.asarray(geom.times_group_element(D, jnp.asarray(2 * A - 3 * B_), p, g))
            gb = np.asarray(geom.times_group_element(D, jnp.asarray(B_), p, g))
            evals += 2
            if err_exact(lin, 2 * outs[int(gi)] - 3 * gb) > 1e-4:
                viols.append(viol("linearity", f"g.(2A-3B) != 2g.A-3g.B: {key} g={g.tolist()}"))
            moved = np.asarray(geom.times_group_element(D, jnp.asarray(ids), 0, g))
            evals += 1
            if sorted(moved.reshape(-1).tolist()) != sorted(ids.reshape(-1).tolist()):
                viols.append(viol(monitors.classify_action(D, shape, g, "array"), f"pixels are not moved by a bijection: {key} g={g.tolist()}", got=small(moved, 30)))
            if tuple(moved.shape) != rgroup.transport(g, shape):
                viols.append(viol(monitors.classify_action(D, shape, g, "array"), f"extents not carried with axes: {moved.shape} vs {rgroup.transport(g, shape)}"))
            na = np.sort(np.sqrt((A.reshape(int(np.prod(shape)), -1) ** 2).sum(1)))
            nb = np.sort(np.sqrt((outs[int(gi)].reshape(int(np.prod(shape)), -1) ** 2).sum(1)))
            if not np.allclose(na, nb, atol=1e-4):
                viols.append(viol(monitors.classify_action(D, shape, g, "array"), f"per-pixel Frobenius norms not preserved: {key} g={g.tolist()}"))
        viols += _mon.take()
    # the single-tensor entry (one pixel's tensor, no spatial axes): det(g)^p g^{(x)k} T for every g
    tt = getattr(geom, "tensor_times_gg", None)
    if not viols and tt is not None and D > 1:
        T = lattice(rng, (D,) * k)
        for g in G:
            try:
                got = np.asarray(tt(jnp.asarray(T), p, g))
            except Exception as e:
                viols.append(viol("tensor-entry-exception", f"tensor_times_gg raised {type(e).__name__}: {str(e)[:200]} for k={k} p={p} g={g.tolist()}"))
                break
            evals += 1
            want = ract.act(D, T.reshape((1,) * D + (D,) * k), k, p, g).reshape((D,) * k)
            if got.shape != want.shape or err_exact(got, want) > 1e-4:
                viols.append(viol("tensor-entry-value", f"tensor_times_gg != det(g)^p g^(x)k T for D={D} k={k} p={p} g={g.tolist()}", got=small(got), want=small(want)))
                break
    # other representations of the same image: int32 data, a NumPy array handed over as it is, float64 data in x64 mode
    # whose values do not fit float32 - a signed permutation of the values must come back exactly, in the same dtype
    if not viols and not case.get("large") and not case.get("high"):
        import jax

        # narrow containers (masks / raw sensor data / half precision): small values, so that the exact result is representable
        # in whatever the library promotes to; an unsigned image with p=1 under an improper g has negative entries
        for rep in ("int32", "numpy", "float64-x64", "uint8", "int16", "bfloat16", "uint16", "float16", "bool"):
            with (jax.enable_x64() if rep == "float64-x64" else contextlib.nullcontext()):
                Ar = {"int32": lambda: jnp.asarray(A.astype(np.int32)), "numpy": lambda: A.astype(np.float32), "float64-x64": lambda: jnp.asarray(A.astype(np.float64) * (1 + 2.0**-40) + 2.0**-33),
                      "uint8": lambda: jnp.asarray(np.abs(A).astype(np.uint8)), "uint16": lambda: jnp.asarray(np.abs(A).astype(np.uint16)), "int16": lambda: jnp.asarray(A.astype(np.int16)),
                      "bfloat16": lambda: jnp.asarray(A, dtype=jnp.bfloat16), "float16": lambda: jnp.asarray(A, dtype=jnp.float16), "bool": lambda: jnp.asarray(A > 0)}[rep]()
                An = np.asarray(Ar)
                for gi in rng.choice(len(G), size=min(len(G), 4 if rep in ('int32', 'numpy', 'float64-x64') else 3), replace=False):
                    g = G[int(gi)]
                    try:
                        o = geom.times_group_element(D, Ar, p, g)
                        o2 = geom.GeometricImage(Ar, p, D, torus).times_group_element(g).data
                    except Exception as e:
                        viols.append(viol(f"action-exception-{rep}", f"times_group_element raised {type(e).__name__}: {str(e)[:200]} for {rep} data; {key} g={g.tolist()}"))
                        break
                    evals += 2
                    want = ract.act(D, An.astype(np.float64), k, p, g)
                    for nm, got in (("array", o), ("GeometricImage", o2)):
                        if not np.array_equal(np.asarray(got).astype(np.float64), want) or (rep == "float64-x64" and str(got.dtype) != "float64"):
                            viols.append(viol(f"action-not-exact-{rep}", f"{nm} entry: g.A is not the signed permutation of the {rep} values (dtype {got.dtype}, max diff {np.max(np.abs(np.asarray(got).astype(np.float64) - want)) if np.shape(got) == want.shape else 'shape'}); {key} g={g.tolist()}"))
                            break
        viols += _mon.take()
    nontrivial = len(set(shape)) > 1 or k >= 1
    return result(
        key, dedup(viols), nontrivial, evals=evals,
        obs={"array_checked": _mon.checked["array"], "gi_checked": _mon.checked["gi"]} if False else {"monitored_returns": evals},
        hist={"D": D, "k": k, "p": p, "entry": "array+gi", "shape_kind": shape_kind(shape)},
        sample={"case": case, "A_first": small(A, 6)},
    )


def shape_kind(shape):
    if len(set(shape)) == len(shape) and len(shape) > 1:
        return "pairwise-distinct"
    if len(set(shape)) > 1:
        return "non-square"
    return "square" + ("-extent1" if 1 in shape else "")


def dedup(viols, per_mech=3):
    seen, out = {}, []
    for v in viols:
        m = v["mechanism"]
        seen[m] = seen.get(m, 0) + 1
        if seen[m] <= per_mech:
            out.append(v)
    return out


def run_multi(case, ctx):
    import jax.numpy as jnp
    import ginjax.geometric as geom

    D, shape, lead = case["D"], tuple(case["shape"]), tuple(case["lead"])
    sig = [tuple(t) for t in case["sig"]]
    torus = tuple(case["torus"])
    rng = rng_for(ctx["seed"], ID, case["i"])
    key = f"multi D={D} shape={shape} lead={lead} sig={sig}"
    G = rgroup.hyperoctahedral(D)
    data = {}
    for (k, p) in sig:
        data[(k, p)] = jnp.asarray(lattice(rng, lead + shape + (D,) * k))
    viols, evals = [], 0
    _mon.take()
    mi = geom.MultiImage(data, D, torus)
    gsel = list(range(len(G))) if (D < 3 or ctx["tier"] == "thorough") else sorted(set([0] + rng.choice(len(G), size=16, replace=False).tolist()))
    buf = np.zeros((D, D), dtype=G[0].dtype) if case["i"] % 2 else None
    for gi in gsel:
        g = G[gi]
        if buf is not None:
            buf[...] = g  # one reusable buffer overwritten in place (see run_single)
            g = buf
        try:
            out = mi.times_group_element(g)
            evals += 1
        except Exception as e:
            viols.append(viol(monitors.classify_action(D, shape, g, "mi", n_lead=len(lead), ntypes=len(sig), exc=e), f"MultiImage.times_group_element raised {type(e).__name__}: {str(e)[:200]} for {key} g={g.tolist()}", g=g.tolist()))
            continue
        # agreement with the single-image entry point, per leading index
        if D > 1 and not _mon.viol:
            for (k, p), blk in mi.data.items():
                ob = np.asarray(out[(k, p)])
                flat_in = np.asarray(blk).reshape((-1,) + shape + (D,) * k)
                if ob.shape[len(lead):len(lead) + D] != rgroup.transport(g, shape):
                    break
                flat_out = ob.reshape((-1,) + ob.shape[len(lead):])
                j = int(rng.integers(len(flat_in)))
                single = geom.GeometricImage(jnp.asarray(flat_in[j]), p, D, torus).times_group_element(g)
                if err_exact(flat_out[j], single.data) > 1e-4:
                    viols.append(viol("entry-points-disagree", f"multi-image block {(k, p)} entry {j} != single-image action: {key} g={g.tolist()}"))
        viols += _mon.take()
    nontrivial = len(set(shape)) > 1 or any(k >= 1 for k, _ in sig)
    return result(
        key, dedup(viols), nontrivial, evals=evals, obs={"monitored_returns": evals},
        hist={"D": D, "entry": "multi", "n_lead": len(lead), "ntypes": len(sig), "shape_kind": shape_kind(shape)},
        sample={"case": case},
    )


def finalize(tier, results, obs, hist, metas):
    problems = []
    if obs.get("monitored_returns", 0) < 100:
        problems.append("fewer than 100 monitored returns")
    return {}, problems
