"""C10 — symmetrisation wrappers make any inner model equivariant.

P-monitor: recorders on GroupAverage.__call__, on the harness inner model (how often and on which inputs it
is invoked: exactly |G| calls, one per g.x) and on Climate1D.__call__/to1d/from1d. GroupAverage(f)(g.x) is
compared with g.GroupAverage(f)(x) (reference action) for every g in G while averaging is on, and with f(x)
bit for bit while it is off; a control observation shows the inner model alone is far from equivariant.
Climate1D: equator reflection commutes for adversarial inner 1-D models; to1d is checked with unique ids
(exactly once, latitude-band-major rows), from1d(to1d(x)) == x exactly, longitude reflection -> 1-D reflection."""
from __future__ import annotations

import numpy as np

from .. import mlgen, probes
from ..ref import action as ract, group as rgroup
from ..util import result, rng_for, viol

ID = "C10"
RULE = (
    "GroupAverage cases = (d in {2,3}, G in {B_d, SO-part, C2^d, C4 / C3 / C4z, single reflection, diag swap, trivial}, flags "
    "(always_average, inference) in all four, input/output signatures incl. pseudo-types and k=2, non-square extents when G does "
    "not permute axes... or does) x random nonlinear channel-mixing position-dependent inner models; Climate1D cases = ((lon,lat) "
    "extents, past/future in {1,2,3}^2, dynamic signatures over {(0,0),(0,1),(1,0)}, constant-field layouts none/scalar/"
    "scalar+pseudo-scalar) x adversarial inner 1-D models. Non-trivial: control defect of the inner model >= 0.05 and g != e; "
    "distinct by configuration."
)
RULE += " One group-average case in three draws its operator list from ALL subgroups of B_d (10 / 98)."
RULE += " Also: inference_mode toggle histories, empty and shuffled operator lists, inner models with state in aux_data, inner models carrying equivariant=True."
ASSUMPTIONS = ["reference action (d=2,3 and the 1-D action)", "tolerance 1e-4 of the trace scale (grey to 1e-3)"]
ANCHORS = ["ginjax.models:GroupAverage.__call__", "ginjax.models:Climate1D.__call__", "ginjax.models:Climate1D.to1d", "ginjax.models:Climate1D.from1d", "ginjax.models:Climate1D.get_1d_signature", "ginjax.models:ModelWrapper.__call__"]
MIN_NONTRIVIAL = {"quick": 40, "thorough": 500}
WORKERS = {"quick": 8, "thorough": 16}
TIMEOUT = {"quick": 1200, "thorough": 7200}
TAU = 1e-4


def cases(tier, seed):
    n_ga, n_cl = (48, 40) if tier == "quick" else (900, 700)
    return [{"kind": "ga", "D": 2 if i % 3 else 3} for i in range(n_ga)] + [{"kind": "climate"} for _ in range(n_cl)]


_log = probes.EventLog()
_log.enabled = False
_calls = {}
traced_calls = [0]


def setup(ctx):
    import ginjax.models as M

    for cls, names in ((M.GroupAverage, ["__call__"]), (M.Climate1D, ["__call__", "to1d", "from1d"])):
        for n in names:
            def cnt(ev, nm=f"{cls.__name__}.{n}"):
                _calls[nm] = _calls.get(nm, 0) + 1
            probes.wrap_method(cls, n, f"{cls.__name__}.{n}", _log, cnt)
    return ract.selftest()


aux_seen = []


def make_inner(rng, D, in_sig, out_sig, record, claims_equivariant=False):
    """Random nonlinear, channel-mixing, position-dependent map MultiImage -> MultiImage (not equivariant)."""
    import jax.numpy as jnp
    import ginjax.geometric as geom
    import ginjax.models as models

    C = sum(c * D**k for (k, p), c in in_sig)
    Ws = {t: jnp.asarray(rng.normal(size=(c * D ** t[0], C)).astype(np.float32)) for t, c in out_sig}
    coef = rng.normal(size=(D,)).astype(np.float32)

    import equinox as eqx

    class Inner(models.MultiImageModule):
        # like the library's models the inner model may carry a static `equivariant` flag (for them it only means "built from
        # the filter bank that was supplied", possibly invariant under a smaller group): a wrapper must not trust it
        equivariant: bool = eqx.field(static=True, default=False)

        def __call__(self, x, aux_data=None):
            import jax

            # a wrapper may legitimately run its group passes under vmap / jit: then the inner model sees tracers, which are
            # recorded as such (the per-call input checks below need concrete inputs; the deciding relation does not)
            traced = any(isinstance(v, jax.core.Tracer) for v in x.data.values())
            record.append({"traced": True, "is_torus": tuple(x.is_torus)} if traced else {**{t: np.asarray(v) for t, v in x.data.items()}, "is_torus": tuple(x.is_torus)})
            gain = 1.0
            if aux_data is not None:
                # a stateful inner model: reads its carried state and updates it from the input (invariantly, so that the
                # state itself is a legitimate invariant quantity); every group pass must see the SAME incoming state
                gain = aux_data["gain"]
                aux_seen.append(None if isinstance(gain, jax.core.Tracer) else float(gain))
                aux_data = {"gain": gain * 0.5 + 0.25 * sum(jnp.mean(v**2) for v in x.data.values())}
            sp = x.get_spatial_dims()
            rows = []
            for t in sorted(x.keys()):
                v = x[t]
                rows.append(jnp.moveaxis(v.reshape((v.shape[0],) + tuple(sp) + (-1,)), -1, 1).reshape((-1,) + tuple(sp)))
            flat = jnp.concatenate(rows, axis=0)  # (C, spatial)
            grids = jnp.meshgrid(*[jnp.arange(n, dtype=jnp.float32) for n in sp], indexing="ij")
            # the map also depends on the per-axis boundary flags of the object it is handed (as a convolutional inner model
            # does): each transformed copy g.x must arrive with its flags carried along with its axes
            pos = sum(float(c) * (1.0 + 0.7 * float(bool(fl))) * g for c, fl, g in zip(coef, x.is_torus, grids)) / 3.0
            out = {}
            for t, c in out_sig:
                h = gain * jnp.tanh(jnp.einsum("oc,c...->o...", Ws[t], flat) * 0.3 + pos) * (1.0 + pos**2)
                h = jnp.moveaxis(h.reshape((c, D ** t[0]) + tuple(sp)), 1, -1).reshape((c,) + tuple(sp) + (D,) * t[0])
                out[t] = h
            return geom.MultiImage(out, x.D, x.is_torus), aux_data

    return Inner(equivariant=bool(claims_equivariant))


def run(case, ctx):
    if case["kind"] == "ga":
        return run_ga(case, ctx)
    return run_climate(case, ctx)


def run_ga(case, ctx):
    import ginjax.models as models

    rng = rng_for(ctx["seed"], ID, case["i"])
    D = case["D"]
    subs = rgroup.subgroups(D)
    gname = list(subs)[int(rng.integers(len(subs)))]
    Gp = subs[gname]
    if case["i"] % 3 == 2:
        # any finite group of signed permutations may be handed over as the operator list: one case in three draws from ALL
        # subgroups of B_d (10 for d=2, 98 for d=3; own stream, the case's other draws do not move)
        allsub = rgroup.all_subgroups(D)
        gname = list(allsub)[int(np.random.default_rng([ctx["seed"], 10, case["i"], 3]).integers(len(allsub)))]
        Gp = allsub[gname]
    pool = [(k, p) for k in range(3 if D == 2 else 2) for p in (0, 1)]
    in_sig = [(pool[i], int(rng.integers(1, 3))) for i in rng.choice(len(pool), size=int(rng.integers(1, 3)), replace=False)]
    out_sig = [(pool[i], int(rng.integers(1, 3))) for i in rng.choice(len(pool), size=int(rng.integers(1, 3)), replace=False)]
    sp = tuple(int(v) for v in rng.integers(2, 5, size=D))
    if rng.integers(0, 2):
        sp = (sp[0],) * D
    torus = tuple(bool(v) for v in rng.integers(0, 2, size=D))
    always, inference = bool(rng.integers(0, 2)), bool(rng.integers(0, 2))
    key = {"kind": "ga", "D": D, "G": gname, "in": in_sig, "out": out_sig, "sp": sp, "always": always, "inference": inference, "torus": torus}
    record = []
    viols, evals, noise = [], 0, 0.0
    try:
        inner = make_inner(rng, D, in_sig, out_sig, record, claims_equivariant=case["i"] % 3 == 1)
        empty_ops = case["i"] % 11 == 5
        # the operator list is mathematically a set: two cases in three hand it over in a random order (own stream), so that
        # the identity is not the first element and no element sits at the index it was generated at (seeded change C10h)
        ops = [np.asarray(g) for g in Gp]
        if case["i"] % 3 != 0 and len(ops) > 1:
            order = np.random.default_rng([ctx["seed"], 10, case["i"], 4]).permutation(len(ops))
            if np.array_equal(ops[int(order[0])], np.eye(D, dtype=int)):
                order = np.roll(order, 1)
            ops = [ops[int(j)] for j in order]
            key["ops"] = "shuffled, identity not first"
        ga = models.GroupAverage(inner, [] if empty_ops else ops, always, inference)
        # multi-step history on the flags: the usual equinox idiom eqx.nn.inference_mode(model, value=...) switches the
        # `inference` leaves; "always average" must survive it, inference-only averaging must follow it
        import equinox as eqx

        toggles = [bool(v) for v in rng.integers(0, 2, size=int(rng.integers(0, 3)))]
        for tv in toggles:
            ga = eqx.nn.inference_mode(ga, value=tv)
            inference = tv
        key["toggles"] = toggles
        x = mlgen.random_multi(rng, in_sig, D, sp, torus)
        on = (always or inference) and not empty_ops  # an empty operator list means: the inner model
        record.clear()
        import jax.numpy as jnp

        aux0 = {"gain": jnp.asarray(1.5)} if case["i"] % 4 == 3 else None
        del aux_seen[:]
        y = ga(x, aux0)[0]
        evals += 1
        if aux0 is not None and on and None not in aux_seen and len(set(aux_seen)) > 1:
            viols.append(viol("group-average-state-leaks-between-passes", f"the group passes of one call saw different incoming states {aux_seen[:6]} (each term of the average must be computed by the same function); {key}"))
        seen_inputs = list(record)
        Y = probes.blocks(y)
        if not on:
            record.clear()
            y0 = inner(x, aux0)[0]
            if any(not np.array_equal(np.asarray(y0[t]), Y[t]) for t in Y) or len(seen_inputs) != 1:
                viols.append(viol("group-average-off-differs", f"averaging off but GroupAverage(f)(x) != f(x) bit for bit ({len(seen_inputs)} inner calls); {key}"))
            control = 1.0
        else:
            # inner model called exactly |G| times, once per g.x
            X = probes.blocks(x)
            if any(r.get("traced") for r in seen_inputs):
                traced_calls[0] += 1  # group passes run under a trace: only the relation below decides
            elif len(seen_inputs) != len(Gp):
                viols.append(viol("group-average-call-count", f"inner model invoked {len(seen_inputs)} times for |G|={len(Gp)}; {key}"))
            else:
                unmatched = list(range(len(Gp)))
                for rec in seen_inputs:
                    hit = None
                    for j in unmatched:
                        want = mlgen.act_blocks(X, D, Gp[j], 1)
                        if all(rec[t].shape == want[t].shape and np.allclose(rec[t], want[t], atol=1e-5) for t in want) and rec["is_torus"] == rgroup.transport(Gp[j], torus):
                            hit = j
                            break
                    if hit is None:
                        viols.append(viol("group-average-inner-input", f"an inner-model input is not g.x (values and per-axis flags) for any remaining g in G; {key}"))
                        break
                    unmatched.remove(hit)
            S = mlgen.trace_scale(x, y)
            # control: the inner model alone is not equivariant
            record.clear()
            f = lambda z: inner(z, aux0)[0]
            Yi = probes.blocks(f(x))
            control = 0.0
            worst, wg = 0.0, None
            for g in Gp:
                if np.array_equal(g, np.eye(D, dtype=int)):
                    continue
                gx = mlgen.act_mi(x, g)
                d, _ = mlgen.compare(f(gx), mlgen.act_blocks(Yi, D, g, 1), 1, S)
                control = max(control, d if np.isfinite(d) else 1.0)
                ygx = ga(gx, aux0)[0]
                evals += 1
                d, msg = mlgen.compare(ygx, mlgen.act_blocks(Y, D, g, 1), 1, S)
                if d > worst:
                    worst, wg, wmsg = d, g, msg
            if worst >= 10 * TAU:
                viols.append(viol("group-average-not-equivariant", f"GroupAverage(f)(g.x) != g.GroupAverage(f)(x): defect {worst:.3g} ({wmsg}) for g={wg.tolist()} in G={gname}; control defect of f alone {control:.3g}; {key}", g=wg.tolist()))
            elif worst > TAU:
                return {"status": "inconclusive", "key": str(key), "nontrivial": False, "why": f"grey zone {worst:.3g}"}
            else:
                noise = worst
    except Exception as e:
        import traceback

        viols.append(viol(f"group-average-exception-{type(e).__name__}", f"{type(e).__name__}: {str(e)[:300]}; {key}; {traceback.format_exc()[-400:]}"))
        control, on = 1.0, True
    nontrivial = (not on) or (control >= 0.05 and len(Gp) > 1)
    return result(key, viols, nontrivial, evals=evals, noise=noise, obs={"wrapper_executions": evals},
                  hist={"kind": "ga", "D": D, "G": gname, "on": on, "operator_list": key.get("ops", "as generated (identity first)"), "square": len(set(sp)) == 1, "flag_history": f"always={always},toggles={key.get('toggles')}"}, sample={"cfg": key, "control_defect_inner": control, "defect": noise})


# ---- Climate1D -----------------------------------------------------------------------------------
def ref_to1d(blocks, const_sig, past, n_lon, n_lat):
    """Documented layout: dynamic part (c,t,x,y) -> rows (y,c,t); vector x-component -> (0,1), y-component -> (0,0);
    constants appended after the dynamic rows as rows (y,c)."""
    dyn, cst = {}, {}
    for t, v in blocks.items():
        nc = const_sig.get(t, 0)
        if nc == v.shape[0]:
            cst[t] = v
        elif nc == 0:
            dyn[t] = v
        else:
            dyn[t], cst[t] = v[:-nc], v[-nc:]
    parts = {}
    for (k, p) in sorted(dyn):  # scalars and pseudoscalars before vector components (the layout from1d reads)
        v = dyn[(k, p)]
        e = v.reshape((-1, past) + v.shape[1:])  # (c,t,x,y[,2])
        if k == 0:
            parts.setdefault((0, p), []).append(e)
        else:
            parts.setdefault((0, 1), []).append(e[..., 0])
            parts.setdefault((0, 0), []).append(e[..., 1])
    out = {}
    for t, lst in parts.items():
        a = np.concatenate(lst, axis=0)  # (C,t,x,y)
        out[t] = np.moveaxis(a, -1, 0).reshape((-1, n_lon))
    for t, v in cst.items():
        rows = np.moveaxis(v, -1, 0).reshape((-1, n_lon))
        out[t] = np.concatenate([out[t], rows], axis=0) if t in out else rows
    return out


def run_climate(case, ctx):
    import jax.numpy as jnp
    import equinox as eqx
    import ginjax.geometric as geom
    import ginjax.models as models

    rng = rng_for(ctx["seed"], ID, case["i"])
    n_lon, n_lat = int(rng.integers(2, 7)), int(rng.integers(2, 7))
    past, future = int(rng.integers(1, 4)), int(rng.integers(1, 4))
    pool = [(0, 0), (0, 1), (1, 0)]
    dyn_types = [pool[i] for i in rng.choice(3, size=int(rng.integers(1, 4)), replace=False)]
    dyn_c = {t: int(rng.integers(1, 3)) for t in dyn_types}
    const_sig = [{}, {(0, 0): 1}, {(0, 0): 2, (0, 1): 1}, {(0, 1): 1}][int(rng.integers(4))]
    blocks, nid = {}, 1
    order = list(dyn_types) + [t for t in const_sig if t not in dyn_types]
    for t in order:
        c = dyn_c.get(t, 0) * past + const_sig.get(t, 0)
        shp = (c, n_lon, n_lat) + (2,) * t[0]
        n = int(np.prod(shp))
        blocks[t] = (nid + np.arange(n)).reshape(shp).astype(np.float32)
        nid += n
    torus = (True, False)
    x = geom.MultiImage({t: jnp.asarray(v) for t, v in blocks.items()}, 2, torus)
    out_types = [pool[i] for i in rng.choice(3, size=int(rng.integers(1, 4)), replace=False)]
    out_keys = mlgen.signature([(t, int(rng.integers(1, 3)) * future) for t in out_types])
    key = {"kind": "climate", "lon": n_lon, "lat": n_lat, "past": past, "future": future, "dyn": {str(t): c for t, c in dyn_c.items()}, "const": {str(t): c for t, c in const_sig.items()}, "out": str(out_keys)}
    viols, evals = [], 0
    try:
        sig1d_out = models.Climate1D.get_1d_signature(out_keys, n_lat)
        # adversarial inner 1-D model
        rec = []
        in1d_rows = None
        W = {}

        class Inner1D(models.MultiImageModule):
            def __call__(self, z, aux_data=None):
                rec.append(1)
                rows = jnp.concatenate([z[t] for t in sorted(z.keys())], axis=0)
                pos = jnp.arange(rows.shape[-1], dtype=jnp.float32) / 2.0
                out = {}
                for t, c in sig1d_out:
                    if t not in W:
                        W[t] = jnp.asarray(rng.normal(size=(c, rows.shape[0])).astype(np.float32))
                    out[t] = jnp.tanh(W[t] @ rows * 1e-3 + pos) * (1 + pos)
                return geom.MultiImage(out, 1, (True,)), aux_data

        model = models.Climate1D(Inner1D(), out_keys, past, future, (n_lon, n_lat), dict(const_sig), torus)
        # (1) to1d with unique ids: exactly once + documented row order
        z = model.to1d(x)
        evals += 1
        got_ids = np.sort(np.concatenate([np.asarray(v).reshape(-1) for v in z.values()]))
        want_ids = np.sort(np.concatenate([v.reshape(-1) for v in blocks.values()]))
        if got_ids.shape != want_ids.shape or not np.array_equal(got_ids, want_ids):
            viols.append(viol("to1d-loses-or-duplicates", f"to1d does not hold every input entry exactly once; {key}"))
        else:
            want = ref_to1d(blocks, const_sig, past, n_lon, n_lat)
            Z = probes.blocks(z)
            if set(Z) != set(want) or any(Z[t].shape != want[t].shape or not np.array_equal(Z[t], want[t]) for t in want):
                viols.append(viol("to1d-row-order", f"to1d rows are not in the documented latitude-band-major order / component mapping; {key}"))
        if z.D != 1:
            viols.append(viol("to1d-dimension", f"to1d returned D={z.D}"))
        # (2) longitude reflection becomes the 1-D reflection
        lonflip = np.array([[-1, 0], [0, 1]])
        z2 = model.to1d(mlgen.act_mi(x, lonflip))
        want = mlgen.act_blocks(probes.blocks(z), 1, np.array([[-1]]), 1)
        d, msg = mlgen.compare(z2, want, 1, 0.0)
        evals += 1
        if d > 0:
            viols.append(viol("to1d-longitude-reflection", f"to1d(lonflip.x) != (1-D reflection).to1d(x): {msg or d}; {key}"))
        # (3) exact round trip where it is defined: no constants, output signature = input signature
        if not const_sig:
            rt = models.Climate1D(models.ModelWrapper(1, eqx.nn.Identity(), models.Climate1D.get_1d_signature(x.get_signature(), n_lat), True), x.get_signature(), past, 1, (n_lon, n_lat), {}, torus)
            back = rt.from1d(rt.to1d(x))
            evals += 1
            B = probes.blocks(back)
            if set(B) != set(blocks) or any(B[t].shape != blocks[t].shape or not np.array_equal(B[t], blocks[t]) for t in blocks):
                viols.append(viol("from1d-to1d-round-trip", f"from1d(to1d(x)) != x exactly; {key}"))
            if past > 1:
                rt2 = models.Climate1D(models.ModelWrapper(1, eqx.nn.Identity(), models.Climate1D.get_1d_signature(x.get_signature(), n_lat), True), x.get_signature(), past, past, (n_lon, n_lat), {}, torus)
                back = rt2.from1d(rt2.to1d(x))
                B = probes.blocks(back)
                if set(B) != set(blocks) or any(B[t].shape != blocks[t].shape or not np.array_equal(B[t], blocks[t]) for t in blocks):
                    viols.append(viol("from1d-to1d-round-trip", f"from1d(to1d(x)) != x exactly with future_steps=past_steps={past}; {key}"))
        # (4) equator reflection commutes for the adversarial inner model
        xr = mlgen.random_multi(rng, [(t, v.shape[0]) for t, v in blocks.items()], 2, (n_lon, n_lat), torus)
        y = model(xr)[0]
        evals += 1
        flip = np.array([[1, 0], [0, -1]])
        yf = model(mlgen.act_mi(xr, flip))[0]
        evals += 1
        S = mlgen.trace_scale(xr, y)
        d, msg = mlgen.compare(yf, mlgen.act_blocks(probes.blocks(y), 2, flip, 1), 1, S)
        # control: a single branch is not equivariant
        y1 = model.from1d(model.model(model.to1d(xr), None)[0])
        y1f = model.from1d(model.model(model.to1d(mlgen.act_mi(xr, flip)), None)[0])
        control, _ = mlgen.compare(y1f, mlgen.act_blocks(probes.blocks(y1), 2, flip, 1), 1, S)
        if d >= 10 * TAU:
            viols.append(viol("climate-equator-not-equivariant", f"Climate1D(f)(flip.x) != flip.Climate1D(f)(x): defect {d:.3g} ({msg}); control {control:.3g}; {key}"))
        got_sig = [(tuple(t), int(c)) for t, c in y.get_signature()]
        if got_sig != [(tuple(t), int(c)) for t, c in out_keys] or tuple(y.get_spatial_dims()) != (n_lon, n_lat) or y.D != 2:
            viols.append(viol("climate-output-signature", f"Climate1D returned {got_sig} extents {y.get_spatial_dims()}, requested {out_keys}; {key}"))
    except Exception as e:
        import traceback

        viols.append(viol(f"climate-exception-{type(e).__name__}", f"{type(e).__name__}: {str(e)[:300]}; {key}; {traceback.format_exc()[-500:]}"))
        control = 1.0
    return result(key, viols, control >= 0.05 if "control" in dir() else True, evals=evals, obs={"wrapper_executions": evals},
                  hist={"kind": "climate", "past": past, "future": future, "const": len(const_sig), "vector": (1, 0) in dyn_types}, sample={"cfg": key})


def finalize(tier, results, obs, hist, metas):
    calls = {}
    for m in metas:
        for k, v in (m.get("monitor") or {}).items():
            calls[k] = calls.get(k, 0) + v
    need = ["GroupAverage.__call__", "Climate1D.__call__", "Climate1D.to1d", "Climate1D.from1d"]
    missing = [k for k in need if not calls.get(k)]
    why = [f"probes never fired: {missing}"] if missing else []
    # a workload element named in the RULE needs its own observation (round 8): shuffled operator lists must have run
    if not (hist.get("operator_list") or {}).get("shuffled, identity not first"):
        why.append("no group-average case with a shuffled operator list was observed")
    return {"probe_calls": calls}, why


def teardown(ctx):
    return {"monitor": dict(_calls)}
