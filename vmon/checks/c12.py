"""C12 — multi-image arithmetic pairs blocks by type, whatever their storage history.

H+R monitor: class-level recorders on MultiImage.__add__/__sub__/__mul__/__truediv__/__eq__
(monitors.ArithMonitor); operands carry unique-id integer payloads, so the per-type NumPy result is
exact and a wrong pairing is named in the witness. Each operand is produced by a random chain of
constructors/transformers (insertion orders, append, from_images, concat, from_vector, copy, jit,
vmap, tree_flatten/unflatten, expand->combine_axes). One jitted callable reused for both storage orders; operand
representations float32 / NumPy blocks / int32 / float64 under x64. Use-then-mutate-then-use histories (operands used, grown in place, used again)."""
from __future__ import annotations

import numpy as np

from .. import monitors
from ..util import result, rng_for, viol

ID = "C12"
RULE = (
    "cases = pairs of operands with equal type sets built by independent random construction histories "
    "(dict literal in a random insertion order, append sequences, from_images, concat, from_vector, copy, jit/vmap "
    "identity, tree_flatten/unflatten, expand->combine_axes), unique-id payloads, type sets incl. blocks of equal "
    "element counts, 0-2 leading axes, D in 1..3; monitored: + - *s /s == and rejection of different type sets. "
    "Non-trivial: >=2 types and (block orders differ or an operand went through a pytree round trip); distinct by "
    "(type set, orders, histories, layout)."
)
RULE += " Use-then-mutate-then-use histories (every 4th case): operands used (scalar multiple, sum, ==, to_vector/from_vector), then grown in place by append on an existing type / __setitem__ with another shape or other values, then monitored."
RULE += " Augmented assignment (+= -= *= /=) and != as further spellings; one multi-image holding blocks of different dtypes (int32 first, float32 with non-integer values). Also: ONE jitted callable reused for both storage orders; operand representations float32 / NumPy blocks / int32 / float64 under x64; scalar representations."
ASSUMPTIONS = ["float32 arithmetic on integers below 2^24 is exact", "NumPy per-type evaluation as the oracle"]
ANCHORS = [
    "ginjax.geometric.multi_image:MultiImage.__add__",
    "ginjax.geometric.multi_image:MultiImage.__sub__",
    "ginjax.geometric.multi_image:MultiImage.__mul__",
    "ginjax.geometric.multi_image:MultiImage.__truediv__",
    "ginjax.geometric.multi_image:MultiImage.__eq__",
    "ginjax.geometric.multi_image:MultiImage.to_vector",
    "ginjax.geometric.multi_image:MultiImage.from_vector",
    "ginjax.geometric.multi_image:MultiImage.tree_flatten",
    "ginjax.geometric.multi_image:MultiImage.tree_unflatten",
]
MIN_NONTRIVIAL = {"quick": 100, "thorough": 1500}
WORKERS = {"quick": 8, "thorough": 16}
TIMEOUT = {"quick": 900, "thorough": 3600}

TYPESETS = [
    # (types with channel multipliers) chosen so that several blocks have equal element counts
    [((0, 0), 2), ((0, 1), 2)],
    [((1, 0), 1), ((1, 1), 1)],
    [((0, 0), "D"), ((1, 0), 1)],
    [((0, 0), 1), ((0, 1), 1), ((1, 0), 2)],
    [((2, 0), 1), ((1, 1), "D"), ((0, 1), 3)],
    [((0, 0), 3), ((1, 0), 2), ((1, 1), 2), ((0, 1), 3)],
    [((2, 0), 1), ((2, 1), 1)],
    [((0, 0), 2)],
]
TCODE = {(0, 0): 1, (0, 1): 2, (1, 0): 3, (1, 1): 4, (2, 0): 5, (2, 1): 6}


def cases(tier, seed):
    n = 400 if tier == "quick" else 8000
    out = [{"n": i} for i in range(n)]
    if tier == "thorough":
        out.insert(0, {"kind": "suite", "n": -1})
    return out


_mon = None
_JIT_OPS = None
_JIT_ID = None


def setup(ctx):
    global _mon
    import ginjax.geometric  # noqa: F401

    _mon = monitors.ArithMonitor().install()
    return {}


REPS = ("float32", "float32", "numpy", "int32", "float64-x64", "mixed")
_CONV = None  # how a NumPy block is handed to the library in this case (jnp.asarray / the NumPy array itself)


def content(rng, D, lead, sp, offset, rep="float32"):
    ts = TYPESETS[int(rng.integers(len(TYPESETS)))]
    if D == 1:
        ts = [((0, 0), 2), ((0, 1), 2)][: int(rng.integers(1, 3))]
    out = {}
    for (k, p), c in ts:
        c = D if c == "D" else c
        if len(lead) >= 1:
            shp = lead[:-1] + (c,) + sp + (D,) * k
        else:
            shp = sp + (D,) * k
        n = int(np.prod(shp))
        vals = (TCODE[(k, p)] * 10000 + np.arange(n)) * offset[0] + offset[1]
        if rep == "float64-x64":
            vals = vals + 2.0**31 + 0.5  # not representable in float32: a silent down-cast loses the ids
        if rep == "mixed":
            # blocks of different dtypes in one multi-image (an int32 mask next to float32 fields with non-integer values);
            # small ids so that the fractional part stays above the comparison tolerance. The narrow block comes first.
            vals = (TCODE[(k, p)] * 1000 + np.arange(n)) * offset[0] + offset[1] + (0.0 if not out else 0.5)
            out[(k, p)] = vals.reshape(shp).astype(np.int32 if not out else np.float32)
            continue
        out[(k, p)] = vals.reshape(shp).astype({"int32": np.int32, "float64-x64": np.float64}.get(rep, np.float32))
    return out


def build(rng, geom, jax, jnp, blocks, D, torus, n_lead):
    """Build a MultiImage holding `blocks` through a random construction history; returns (mi, history)."""
    keys = list(blocks.keys())
    order = [keys[i] for i in rng.permutation(len(keys))]
    ctor = ["dict", "append"]
    if n_lead >= 1:
        ctor += ["append_split", "concat_channels", "from_images" if n_lead == 1 else "append"]
    if len(keys) >= 2:
        ctor.append("concat_types")
    how = ctor[int(rng.integers(len(ctor)))]
    hist = [how + ":" + ",".join(f"{k}{p}" for k, p in order)]
    J = {t: (_CONV or jnp.asarray)(blocks[t]) for t in keys}
    if how == "dict":
        mi = geom.MultiImage({t: J[t] for t in order}, D, torus)
    elif how == "append":
        mi = geom.MultiImage({}, D, torus)
        for k, p in order:
            mi.append(k, p, J[(k, p)])
    elif how == "append_split":
        ax = n_lead - 1
        mi = geom.MultiImage({}, D, torus)
        halves = []
        for k, p in order:
            blk = J[(k, p)]
            c = blk.shape[ax]
            cut = max(1, c // 2) if c > 1 else c
            idx = [slice(None)] * blk.ndim
            idx[ax] = slice(0, cut)
            mi.append(k, p, blk[tuple(idx)], axis=ax)
            if cut < c:
                idx[ax] = slice(cut, c)
                halves.append((k, p, blk[tuple(idx)]))
        for k, p, rest in halves[::-1]:
            mi.append(k, p, rest, axis=ax)
    elif how == "concat_channels":
        ax = n_lead - 1
        a, b = geom.MultiImage({}, D, torus), geom.MultiImage({}, D, torus)
        for k, p in order:
            blk = J[(k, p)]
            c = blk.shape[ax]
            cut = max(1, c // 2)
            idx = [slice(None)] * blk.ndim
            idx[ax] = slice(0, cut)
            a.append(k, p, blk[tuple(idx)], axis=ax)
            if cut < c:
                idx[ax] = slice(cut, c)
                b.append(k, p, blk[tuple(idx)], axis=ax)
        mi = a.concat(b, axis=ax)
    elif how == "concat_types":
        cut = int(rng.integers(1, len(order)))
        a = geom.MultiImage({t: J[t] for t in order[:cut]}, D, torus)
        b = geom.MultiImage({t: J[t] for t in order[cut:]}, D, torus)
        mi = a.concat(b, axis=0)
    elif how == "from_images":
        imgs = []
        for k, p in order:
            for ch in J[(k, p)]:
                imgs.append(geom.GeometricImage(ch, p, D, torus))
        mi = geom.MultiImage.from_images(imgs)
    n_tr = int(rng.integers(0, 4))
    round_trip = False
    for _ in range(n_tr):
        tr = ["copy", "from_vector", "jit", "flatten", "vmap" if n_lead >= 1 else "jit", "expand_combine" if n_lead >= 1 else "copy", "setitem"][int(rng.integers(7))]
        hist.append(tr)
        if tr == "copy":
            mi = mi.copy()
        elif tr == "setitem":
            # a block re-assigned through the public setter (same content, a fresh array object)
            t_ = list(mi.keys())[int(rng.integers(len(mi.keys())))]
            mi[t_] = (_CONV or jnp.asarray)(np.array(np.asarray(mi[t_])))
        elif tr == "from_vector":
            mi = geom.MultiImage.from_vector(mi.to_vector(), mi)
        elif tr == "jit":
            global _JIT_ID
            if _JIT_ID is None:
                _JIT_ID = jax.jit(lambda m: m)  # one identity reused for every operand of this process
            mi = _JIT_ID(mi)
            round_trip = True
        elif tr == "flatten":
            leaves, treedef = jax.tree_util.tree_flatten(mi)
            mi = jax.tree_util.tree_unflatten(treedef, leaves)
            round_trip = True
        elif tr == "vmap":
            sizes = {v.shape[0] for v in mi.values()}
            if len(sizes) == 1:
                mi = jax.vmap(lambda m: m)(mi)
                round_trip = True
            else:
                hist[-1] = "vmap-skipped"
        elif tr == "expand_combine":
            ax = n_lead - 1
            mi = mi.expand(ax, 1).combine_axes((ax, ax + 1))
    return mi, hist, round_trip


def run(case, ctx):
    import contextlib
    import jax

    if case.get("kind") == "suite":
        from .. import suite

        return suite.run_suite("arith", files=["tests/test_multi_image.py", "tests/test_models.py", "tests/test_ml.py"])
    # operand representation: float32 jax arrays (default), NumPy arrays handed to the constructors as they are, int32
    # payloads, float64 payloads in x64 mode whose ids do not fit float32
    rep = REPS[case["i"] % len(REPS)]
    with (jax.enable_x64() if rep == "float64-x64" else contextlib.nullcontext()):
        return _run(case, ctx, rep)


def _run(case, ctx, rep):
    import jax
    import jax.numpy as jnp
    import ginjax.geometric as geom

    global _CONV
    _CONV = (lambda v: v) if rep == "numpy" else jnp.asarray
    rng = rng_for(ctx["seed"], ID, case["i"])
    D = int(rng.choice([1, 2, 2, 3]))
    n_lead = int(rng.integers(0, 3))
    lead = {0: (), 1: (1,), 2: (int(rng.integers(1, 4)), 1)}[n_lead]
    sp = tuple(int(v) for v in rng.integers(1, 4, size=D))
    torus = tuple(bool(v) for v in rng.integers(0, 2, size=D))
    rs = np.random.default_rng([ctx["seed"], 12, case["i"], 7])
    blocks_a = content(rs, D, lead, sp, (1, 0), rep)
    rs = np.random.default_rng([ctx["seed"], 12, case["i"], 7])
    blocks_b = content(rs, D, lead, sp, (3, 1), rep)
    viols, evals = [], 0
    _mon.take()
    try:
        a, ha, rta = build(rng, geom, jax, jnp, blocks_a, D, torus, n_lead)
        b, hb, rtb = build(rng, geom, jax, jnp, blocks_b, D, torus, n_lead)
    except Exception as e:
        import traceback

        return result(f"build-exc", [viol(f"construction-exception-{type(e).__name__}", f"building an operand raised {type(e).__name__}: {str(e)[:200]}; D={D} n_lead={n_lead} types={list(blocks_a)}; {traceback.format_exc()[-400:]}")], True)
    # use-then-mutate-then-use histories (every 4th case): both operands are first *used* (scalar multiple, division, sum,
    # difference, ==, to_vector/from_vector - anything that could fill a per-object memo), then mutated in place through the
    # public mutators (append of further channels to an existing type; __setitem__ with other values / another shape), and
    # only then enter the monitored operations: the result is a function of the current blocks, not of earlier uses
    if case["i"] % 4 == 1:
        rg = np.random.default_rng([ctx["seed"], 12, case["i"], 99])
        grow_types = [t for t in blocks_a if rg.integers(0, 2)] or [list(blocks_a)[0]]
        how = ["append", "setitem-shape"][int(rg.integers(2))] if n_lead >= 1 else "setitem-values"
        try:
            for mi in (a, b):
                for f_ in (lambda m: m * 2.0, lambda m: m / 2.0, lambda m: m + m, lambda m: m - m, lambda m: m == m,
                           lambda m: geom.MultiImage.from_vector(m.to_vector(), m), lambda m: m.size()):
                    f_(mi)
            blocks_a, blocks_b = dict(blocks_a), dict(blocks_b)
            for t in grow_types:
                for mi, blk in ((a, blocks_a), (b, blocks_b)):
                    extra = (blk[t] + np.asarray(500000, dtype=blk[t].dtype)).astype(blk[t].dtype)
                    if how == "append":
                        mi.append(t[0], t[1], _CONV(extra), axis=n_lead - 1)
                        blk[t] = np.concatenate([blk[t], extra], axis=n_lead - 1)
                    elif how == "setitem-shape":
                        blk[t] = np.concatenate([extra, blk[t], extra], axis=n_lead - 1)
                        mi[t] = _CONV(blk[t])
                    else:
                        blk[t] = extra
                        mi[t] = _CONV(extra)
            ha, hb = ha + ["use", f"{how}:{grow_types}"], hb + ["use", f"{how}:{grow_types}"]
        except Exception as e:
            import traceback

            return result("build-exc", [viol(f"construction-exception-{type(e).__name__}", f"use-then-{how} history raised {type(e).__name__}: {str(e)[:200]}; D={D} n_lead={n_lead} types={list(blocks_a)}; {traceback.format_exc()[-400:]}")], True)
    # the construction history must not have changed the content (guards the harness itself)
    for nm, mi, blk in (("a", a, blocks_a), ("b", b, blocks_b)):
        for t, v in blk.items():
            if t not in mi or np.asarray(mi[t]).shape != v.shape or not np.array_equal(np.asarray(mi[t]), v):
                viols.append(viol("construction-changed-content", f"operand {nm}: block {t} differs after history {ha if nm == 'a' else hb}"))
    orders = (list(a.keys()), list(b.keys()))
    key = {"D": D, "n_lead": n_lead, "sp": sp, "types": sorted(blocks_a), "order_a": orders[0], "order_b": orders[1], "ha": ha, "hb": hb, "rep": rep}
    want_dtype = {"int32": "int32", "float64-x64": "float64"}.get(rep, "float32")
    for nm, mi in (("a", a), ("b", b)):
        bad = {t: str(v.dtype) for t, v in mi.items() if str(v.dtype) != want_dtype}
        if bad and not viols and rep not in ("int32", "mixed"):  # integer payloads may legitimately become float32 (from_vector, concat)
            viols.append(viol("construction-changed-dtype", f"operand {nm}: blocks {bad} after history {ha if nm == 'a' else hb}, put in as {want_dtype}"))
    if not viols:
        s = float(rng.integers(2, 6))
        s = [s, int(s), np.float32(s), jnp.asarray(s)][int(rng.integers(4))]  # python float / int / numpy scalar / 0-d jax array
        ops = [("add", lambda: a + b), ("sub", lambda: a - b), ("add_rev", lambda: b + a), ("mul", lambda: a * s), ("div", lambda: b / s), ("eq_self", lambda: a == a.copy())]
        for name, f in ops:
            try:
                out = f()
                evals += 1
            except Exception as e:
                viols.append(viol(f"arith-exception-{type(e).__name__}", f"{name} raised {type(e).__name__}: {str(e)[:200]}; orders {orders}; histories {ha} / {hb}"))
        # other spellings of the same operations: augmented assignment (falls back to the binary operator unless the class
        # defines an in-place form, which must then pair by type as well), `!=`
        import operator

        wants_ = {"iadd": {t: blocks_a[t] + blocks_b[t] for t in blocks_a}, "isub": {t: blocks_a[t] - blocks_b[t] for t in blocks_a},
                  "imul": {t: blocks_a[t] * float(np.asarray(s)) for t in blocks_a}, "itruediv": {t: blocks_a[t] / float(np.asarray(s)) for t in blocks_a}}
        for nm in ("iadd", "isub", "imul", "itruediv"):
            try:
                u = geom.MultiImage({t: jnp.asarray(np.asarray(v)) for t, v in a.items()}, D, torus)  # fresh object, a's storage order
                r = getattr(operator, nm)(u, b if nm in ("iadd", "isub") else s)
                evals += 1
                if set(r.keys()) != set(blocks_a) or any(np.asarray(r[t]).shape != wants_[nm][t].shape or not np.allclose(np.asarray(r[t], dtype=np.float64), wants_[nm][t], rtol=1e-6, atol=0) for t in blocks_a):
                    viols.append(viol("arith-augmented-assignment", f"`a {nm[1:]}= ...` differs from the per-type result; orders {orders}; histories {ha} / {hb}"))
            except Exception as e:
                viols.append(viol(f"arith-exception-{type(e).__name__}", f"{nm} raised {type(e).__name__}: {str(e)[:200]}; orders {orders}; histories {ha} / {hb}"))
        # the same operations traced under jit (keys sorted by jax inside the trace): results by type must agree
        try:
            # ONE jitted callable reused for all operands of this process (the jit cache is keyed by the pytree structure:
            # operands with the same types in another storage order must not be served a stale trace), called for (a,b)
            # and for the same content rebuilt in reversed insertion order
            global _JIT_OPS
            if _JIT_OPS is None:
                _JIT_OPS = jax.jit(lambda u, v: (u + v, u - v, u * 3.0, v / 2.0))
            ar = geom.MultiImage({t: jnp.asarray(blocks_a[t]) for t in list(a.keys())[::-1]}, D, torus)
            br = geom.MultiImage({t: jnp.asarray(blocks_b[t]) for t in list(b.keys())[::-1]}, D, torus)
            for u_, v_ in ((a, b), (ar, br), (a, br)):
                js = _JIT_OPS(u_, v_)
                evals += 1
                for nm, got, want in zip(("add", "sub", "mul", "div"), js, [
                    {t: blocks_a[t] + blocks_b[t] for t in blocks_a}, {t: blocks_a[t] - blocks_b[t] for t in blocks_a},
                    {t: blocks_a[t] * 3.0 for t in blocks_a}, {t: blocks_b[t] / 2.0 for t in blocks_a}]):
                    if set(got.keys()) != set(want) or any(np.asarray(got[t]).shape != want[t].shape or not np.allclose(np.asarray(got[t]), want[t], rtol=1e-6) for t in want):
                        viols.append(viol("arith-under-reused-jit", f"a reused jitted {nm} differs from the per-type result for operand orders {list(u_.keys())} / {list(v_.keys())} (jit cache keyed by pytree structure)"))
                        break
            js = _JIT_OPS(a, b)
            wants = [
                {t: blocks_a[t] + blocks_b[t] for t in blocks_a}, {t: blocks_a[t] - blocks_b[t] for t in blocks_a},
                {t: blocks_a[t] * 3.0 for t in blocks_a}, {t: blocks_b[t] / 2.0 for t in blocks_a},
            ]
            for nm, got, want in zip(("add", "sub", "mul", "div"), js, wants):
                if set(got.keys()) != set(want) or any(np.asarray(got[t]).shape != want[t].shape or not np.allclose(np.asarray(got[t]), want[t], rtol=1e-6) for t in want):
                    viols.append(viol("D2-arith-positional-pairing" if (orders[0] != orders[1] and nm in ("add", "sub")) else "arith-under-jit", f"jit({nm}) differs from the per-type result; orders {orders}; histories {ha} / {hb}"))
        except Exception as e:
            viols.append(viol(f"arith-exception-{type(e).__name__}", f"jit arithmetic raised {type(e).__name__}: {str(e)[:200]}; orders {orders}"))
        # equality across histories: same content rebuilt through another history must compare equal
        try:
            a2, ha2, _ = build(rng, geom, jax, jnp, blocks_a, D, torus, n_lead)
            if a != a2:
                viols.append(viol("eq-mismatch", f"`!=` is True for equal content: orders {list(a.keys())} / {list(a2.keys())}"))
            if not (a == a2):
                viols.append(viol("eq-positional" if list(a.keys()) != list(a2.keys()) else "eq-mismatch", f"equal content compares unequal: orders {list(a.keys())} / {list(a2.keys())} histories {ha} / {ha2}"))
            # one element differs in one type -> not equal
            t = list(blocks_a)[int(rng.integers(len(blocks_a)))]
            mod = {kk: v.copy() for kk, v in blocks_a.items()}
            j_ = int(rng.integers(mod[t].size))
            mod[t].reshape(-1)[j_] += max(7, abs(mod[t].reshape(-1)[j_]))  # well outside the tolerance of the library's allclose-based ==
            a3, _, _ = build(rng, geom, jax, jnp, mod, D, torus, n_lead)
            if a == a3:
                viols.append(viol("eq-mismatch", f"operands differing in block {t} compare equal"))
            evals += 2
        except Exception as e:
            viols.append(viol(f"arith-exception-{type(e).__name__}", f"== raised {type(e).__name__}: {str(e)[:200]}"))
        # rejection: different type sets must not be combined
        if len(blocks_a) >= 2:
            drop = list(blocks_a)[0]
            sub = {kk: v for kk, v in blocks_b.items() if kk != drop}
            c = geom.MultiImage({kk: jnp.asarray(v) for kk, v in sub.items()}, D, torus)
            for nm, f in (("add", lambda: a + c), ("sub", lambda: c - a)):
                try:
                    r = f()
                    viols.append(viol("arith-different-type-sets-combined", f"{nm} of operands with types {list(a.keys())} and {list(c.keys())} returned {list(r.keys())} instead of being rejected"))
                except (AssertionError, KeyError, ValueError, TypeError):
                    pass
            if a == c or c == a:
                viols.append(viol("eq-mismatch", "operands with different type sets compare equal"))
            evals += 3
    viols += _mon.take()
    nontrivial = len(blocks_a) >= 2 and (orders[0] != orders[1] or rta or rtb)
    return result(key, viols, nontrivial, evals=evals, obs={"monitored_ops": evals, "orders_differ": int(orders[0] != orders[1]), "round_trips": int(rta or rtb)},
                  hist={"D": D, "rep": rep, "n_lead": n_lead, "ntypes": len(blocks_a), "ctor_a": ha[0].split(":")[0], "ctor_b": hb[0].split(":")[0], "transformers": ha[1:] + hb[1:]},
                  sample={"key": key})


def finalize(tier, results, obs, hist, metas):
    problems = []
    if obs.get("orders_differ", 0) < 10:
        problems.append("fewer than 10 operand pairs with different block orders")
    mon = {}
    for m in metas:
        for k, v in (m.get("monitor") or {}).items():
            mon[k] = mon.get(k, 0) + v
    if mon.get("add", 0) == 0:
        problems.append("the __add__ probe never fired")
    return {"monitor_counts": mon}, problems


def teardown(ctx):
    return {"monitor": dict(_mon.checked)}
