"""C18 — losses compute their definition, pair blocks by type and are symmetry-invariant.

R-monitor: forwarding recorders on smse_loss / timestep_smse_loss / normalized_smse_loss (every ginjax
namespace binding); every concrete return is compared with a float64 NumPy reference evaluated on the
blocks *looked up by key*. P-laws on the recorded values: same arguments rebuilt in another insertion
order / after jit(identity) give the same value; loss(x,x)==0 exactly; non-negative; sum over steps of the
per-timestep loss equals the total; loss(g.x, g.y) == loss(x,y) for g in B_d (reference action)."""
from __future__ import annotations

import numpy as np

from .. import probes
from ..ref import action as ract, group as rgroup, misc as rmisc
from ..util import result, rng_for, viol

ID = "C18"
RULE = (
    "cases = (D, non-square shape, batch, steps, signature with >=2 types incl. types of equal block shape, insertion "
    "orders of prediction and target, jit round trip, reduce mode); each case calls the three real losses, every concrete "
    "return is compared with the float64 reference (rel 1e-5), plus order-independence, zero-on-equal, non-negativity, "
    "sum-of-steps and B_d invariance. Non-trivial: >=2 types and prediction/target stored in different orders; distinct by case config."
)
RULE += " Every sixth case is a near-converged forecast of an offset field (prediction within 1e-3..1e-5 relative of a target of magnitude 50..1000). Also: one reused jitted loss per kind, eps in {0.0, 0, 1e-5} on small-norm targets, NumPy-backed operands."
ASSUMPTIONS = ["float64 NumPy reference losses vmon/ref/misc.py", "relative tolerance 1e-5 (float32 accumulation)"]
ANCHORS = ["ginjax.ml.losses:smse_loss", "ginjax.ml.losses:timestep_smse_loss", "ginjax.ml.losses:normalized_smse_loss"]
MIN_NONTRIVIAL = {"quick": 60, "thorough": 800}
WORKERS = {"quick": 8, "thorough": 16}
TIMEOUT = {"quick": 900, "thorough": 3600}

SIGS = [
    [((0, 0), 1), ((0, 1), 1)],
    [((1, 0), 1), ((1, 1), 1)],
    [((0, 0), 2), ((1, 0), 1)],
    [((0, 0), 1), ((0, 1), 1), ((1, 0), 2)],
    [((1, 0), 1), ((0, 1), 2), ((2, 0), 1)],
    [((0, 0), 1)],
    [((2, 0), 1), ((2, 1), 1), ((0, 0), 4)],
]


def cases(tier, seed):
    n = 240 if tier == "quick" else 4000
    return [{"n": i} for i in range(n)]


class LossMonitor:
    def __init__(self):
        self.viol = []
        self.checked = {"smse": 0, "timestep": 0, "normalized": 0}
        self.log = probes.EventLog()
        self.log.enabled = False

    def install(self):
        import ginjax.ml.losses as L

        probes.install_function(L, "smse_loss", "ml.smse_loss", self.log, lambda ev: self._on("smse", ev))
        probes.install_function(L, "timestep_smse_loss", "ml.timestep_smse_loss", self.log, lambda ev: self._on("timestep", ev))
        probes.install_function(L, "normalized_smse_loss", "ml.normalized_smse_loss", self.log, lambda ev: self._on("normalized", ev))
        return self

    def _on(self, which, ev):
        a = list(ev["args"])
        kw = dict(ev["kwargs"])
        x = a[0] if a else kw["multi_image_x"]
        y = a[1] if len(a) > 1 else kw["multi_image_y"]
        X, Y = probes.blocks(x), probes.blocks(y)
        if set(X) != set(Y):
            return
        D = x.D
        self.checked[which] += 1
        if which == "smse":
            reduce = a[2] if len(a) > 2 else kw.get("reduce", "mean")
            want = rmisc.smse(X, Y, D, reduce)
        elif which == "timestep":
            n_steps = a[2] if len(a) > 2 else kw["n_steps"]
            reduce = a[3] if len(a) > 3 else kw.get("reduce", "mean")
            want = rmisc.timestep_smse(X, Y, D, n_steps, reduce)
        else:
            eps = a[2] if len(a) > 2 else kw.get("eps", 1e-5)
            want = rmisc.normalized_smse(X, Y, D, eps)
        got = np.asarray(ev["out"], dtype=np.float64)
        want = np.asarray(want, dtype=np.float64)
        scale = max(1e-12, float(np.max(np.abs(want))))
        bad = got.shape != want.shape or not np.all(np.isfinite(got)) or float(np.max(np.abs(got - want))) > 2e-5 * scale + 1e-9
        if bad:
            positional = list(X) != list(Y)
            mech = "D3-loss-positional-pairing" if (positional and which in ("smse", "timestep")) else f"{which}-loss-value-mismatch"
            self.viol.append(viol(mech, f"ml.{which} loss = {got.tolist() if got.size < 8 else got.reshape(-1)[:8].tolist()} but the definition gives {want.tolist() if want.size < 8 else want.reshape(-1)[:8].tolist()}; prediction order {list(X)}, target order {list(Y)}", which=which, order_x=[list(k) for k in X], order_y=[list(k) for k in Y], shapes={str(k): list(v.shape) for k, v in X.items()}))

    def take(self):
        v, self.viol = self.viol, []
        return v


_mon = None
_JIT_SMSE = None
_JIT_NORM = None


def setup(ctx):
    global _mon
    import ginjax.ml  # noqa: F401

    _mon = LossMonitor().install()
    return rmisc.selftest()


def run(case, ctx):
    import jax
    import jax.numpy as jnp
    import ginjax.geometric as geom
    import ginjax.ml as ml

    rng = rng_for(ctx["seed"], ID, case["i"])
    D = int(rng.choice([2, 2, 3]))
    sp = tuple(int(v) for v in (rng.integers(2, 5, size=D) if D == 2 else rng.integers(1, 4, size=D)))
    batch, steps = int(rng.integers(1, 5)), int(rng.integers(1, 4))
    sig = SIGS[int(rng.integers(len(SIGS)))]
    if D == 3:
        sig = [(t, c) for t, c in sig if t[0] <= 1] or [((0, 0), 1)]
    torus = tuple(bool(v) for v in rng.integers(0, 2, size=D))
    xb, yb = {}, {}
    for (k, p), c in sig:
        shp = (batch, c * steps) + sp + (D,) * k
        xb[(k, p)] = rng.normal(size=shp).astype(np.float32)
        yb[(k, p)] = (rng.normal(size=shp) + 0.5).astype(np.float32)
    regime = "generic"
    if case["i"] % 6 == 4:
        # a converged forecast of a field with a large offset (temperature in K, pressure in hPa): the prediction is within
        # 1e-3..1e-5 relative of a target that is far from zero. The float32 inputs are what they are; the loss of THOSE
        # inputs is well conditioned (x - y is exact for neighbouring floats), so the definition must still be met
        regime = "near-converged-offset"
        offset, rel = float(rng.choice([50.0, 300.0, 1000.0])), float(rng.choice([1e-3, 1e-4, 1e-5]))
        for t in list(xb):
            yb[t] = (offset + rng.normal(size=yb[t].shape)).astype(np.float32)
            xb[t] = (yb[t].astype(np.float64) * (1.0 + rel * rng.normal(size=yb[t].shape))).astype(np.float32)
    types = list(xb)
    ox = [types[i] for i in rng.permutation(len(types))]
    oy = [types[i] for i in rng.permutation(len(types))]
    conv = (lambda v: np.asarray(v)) if case["i"] % 5 == 2 else jnp.asarray  # one case in five: NumPy-backed operands
    mk = lambda blocks, order: geom.MultiImage({t: conv(blocks[t]) for t in order}, D, torus)
    x, y = mk(xb, ox), mk(yb, oy)
    jit_rt = bool(rng.integers(0, 2))
    if jit_rt:
        y = jax.jit(lambda m: m)(y)
    key = {"D": D, "sp": sp, "batch": batch, "steps": steps, "sig": sig, "ox": ox, "oy": list(y.keys()), "jit": jit_rt, "regime": regime}
    viols, evals = [], 0
    _mon.take()
    vals = {}
    try:
        for red in ("mean", None):
            vals[("smse", red)] = np.asarray(ml.smse_loss(x, y, red))
        for red in ("mean", "max", None):
            vals[("ts", red)] = np.asarray(ml.timestep_smse_loss(x, y, steps, red))
        vals[("norm", None)] = np.asarray(ml.normalized_smse_loss(x, y))
        evals += 6
        # same arguments in other storage orders
        x2, y2 = mk(xb, ox[::-1]), mk(yb, types)
        alt = {
            ("smse", "mean"): np.asarray(ml.smse_loss(x2, y2)),
            ("ts", "mean"): np.asarray(ml.timestep_smse_loss(x2, y2, steps)),
            ("norm", None): np.asarray(ml.normalized_smse_loss(x2, y2)),
        }
        evals += 3
        for kk, v in alt.items():
            if not np.allclose(v, vals[kk], rtol=2e-5, atol=1e-9):
                viols.append(viol("D3-loss-positional-pairing" if kk[0] != "norm" else "normalized-loss-order-dependent", f"loss {kk} depends on block storage order: {vals[kk].tolist()} vs {v.tolist()} (orders {ox}/{list(y.keys())} vs {ox[::-1]}/{types})"))
        # traced under jit (keys sorted inside the trace)
        global _JIT_SMSE, _JIT_NORM
        if _JIT_SMSE is None:  # reused for all arguments of this process (jit cache keyed by the pytree structure)
            _JIT_SMSE, _JIT_NORM = jax.jit(ml.smse_loss), jax.jit(ml.normalized_smse_loss)
        jl = [np.asarray(_JIT_SMSE(x, y)), np.asarray(jax.jit(lambda u, v: ml.timestep_smse_loss(u, v, steps))(x, y)), np.asarray(_JIT_NORM(x, y))]
        # the same content in reversed storage order through the same cached callables
        xr_, yr_ = mk(xb, ox[::-1]), mk(yb, oy[::-1])
        for nm, v, base in (("smse", np.asarray(_JIT_SMSE(xr_, yr_)), vals[("smse", "mean")]), ("normalized", np.asarray(_JIT_NORM(xr_, yr_)), vals[("norm", None)])):
            evals += 1
            if not np.allclose(v, base, rtol=5e-5, atol=1e-8):
                viols.append(viol(f"{nm}-loss-under-reused-jit", f"a reused jitted {nm} loss gives {v.tolist()} for the reversed storage order, {base.tolist()} eagerly"))
        # non-default eps of the normalised loss (the R-monitor evaluates the eps that was passed), including eps = 0 (a pure
        # relative error) on targets that are small but bounded away from zero, where the epsilon matters
        ml.normalized_smse_loss(x, y, 1e-2)
        ysmall = mk({t: (0.03 * np.sign(v) * (1.0 + np.abs(v))).astype(np.float32) for t, v in yb.items()}, oy)
        xsmall = mk({t: (0.03 * v).astype(np.float32) for t, v in xb.items()}, ox)
        for e_ in (0.0, 0, 1e-5):
            ml.normalized_smse_loss(xsmall, ysmall, e_)
        evals += 4
        evals += 3
        for nm, v, base in zip(("smse", "timestep", "normalized"), jl, (vals[("smse", "mean")], vals[("ts", "mean")], vals[("norm", None)])):
            if not np.allclose(v, base, rtol=5e-5, atol=1e-8):
                viols.append(viol("D3-loss-positional-pairing" if (ox != list(y.keys()) and nm != "normalized") else f"{nm}-loss-under-jit", f"jit({nm})={v.tolist()} != eager {base.tolist()} (orders {ox} / {list(y.keys())})"))
        # zero on equal arguments stored differently
        xe = mk(xb, oy)
        z = [np.asarray(ml.smse_loss(x, xe)), np.asarray(ml.timestep_smse_loss(x, xe, steps)), np.asarray(ml.normalized_smse_loss(x, xe))]
        evals += 3
        for nm, v in zip(("smse", "timestep", "normalized"), z):
            if np.any(v != 0):
                viols.append(viol("D3-loss-positional-pairing" if (ox != oy and nm != "normalized") else f"{nm}-loss-not-zero-on-equal", f"{nm} loss of equal arguments is {v.tolist()}, not 0 (orders {ox} / {oy})"))
        for kk, v in vals.items():
            if np.any(v < 0):
                viols.append(viol("loss-negative", f"loss {kk} negative: {v.tolist()}"))
        if not np.allclose(vals[("ts", "mean")].sum(), vals[("smse", "mean")], rtol=2e-5, atol=1e-9):
            viols.append(viol("timestep-sum-not-total", f"sum over steps {vals[('ts', 'mean')].sum()} != total {vals[('smse', 'mean')]}"))
        if not np.allclose(vals[("ts", None)].sum(1), vals[("smse", None)], rtol=2e-5, atol=1e-9):
            viols.append(viol("timestep-sum-not-total", "per-entry sum over steps != per-entry total"))
        # symmetry invariance (reference action on both arguments)
        G = rgroup.hyperoctahedral(D)
        gs = G if (D == 2 and ctx["tier"] == "thorough") else [G[int(i)] for i in rng.choice(len(G), size=3, replace=False)]
        for g in gs:
            gx = geom.MultiImage({t: jnp.asarray(ract.act(D, xb[t], t[0], t[1], g, 2).astype(np.float32)) for t in ox}, D, rgroup.transport(g, torus))
            gy = geom.MultiImage({t: jnp.asarray(ract.act(D, yb[t], t[0], t[1], g, 2).astype(np.float32)) for t in oy}, D, rgroup.transport(g, torus))
            inv = [np.asarray(ml.smse_loss(gx, gy)), np.asarray(ml.timestep_smse_loss(gx, gy, steps)), np.asarray(ml.normalized_smse_loss(gx, gy))]
            evals += 3
            for nm, v, base in zip(("smse", "timestep", "normalized"), inv, (vals[("smse", "mean")], vals[("ts", "mean")], vals[("norm", None)])):
                if not np.allclose(v, base, rtol=5e-5, atol=1e-8):
                    viols.append(viol(f"{nm}-loss-not-invariant", f"{nm}(g.x,g.y)={v.tolist()} != {base.tolist()} for g={g.tolist()}"))
    except Exception as e:
        import traceback

        viols.append(viol(f"loss-exception-{type(e).__name__}", f"{type(e).__name__}: {str(e)[:200]} {traceback.format_exc()[-300:]}; {key}"))
    viols = dedup(viols + _mon.take())
    nontrivial = len(types) >= 2 and ox != list(y.keys())
    return result(key, viols, nontrivial, evals=evals, obs={"loss_calls": evals, "orders_differ": int(ox != list(y.keys()))},
                  hist={"D": D, "ntypes": len(types), "steps": steps, "batch": batch, "jit": jit_rt, "regime": regime}, sample={"key": key, "smse": float(vals.get(("smse", "mean"), np.nan))})


def dedup(viols, per=2):
    seen, out = {}, []
    for v in viols:
        seen[v["mechanism"]] = seen.get(v["mechanism"], 0) + 1
        if seen[v["mechanism"]] <= per:
            out.append(v)
    return out


def finalize(tier, results, obs, hist, metas):
    mon = {}
    for m in metas:
        for k, v in (m.get("monitor") or {}).items():
            mon[k] = mon.get(k, 0) + v
    problems = [] if all(mon.get(k, 0) > 0 for k in ("smse", "timestep", "normalized")) else ["a loss probe never fired"]
    return {"monitor_counts": mon}, problems


def teardown(ctx):
    return {"monitor": dict(_mon.checked)}
