"""C07 — equivariant networks are equivariant end to end.

P-monitor on the layer-by-layer trace: class-level recorders on every layer __call__ (ConvContract,
GroupNorm/LayerNorm, VectorNeuronNonlinear, MaxNormPool) record the run on x. Two oracles:
(1) layer-synchronised: every recorded layer event (layer, a_i, b_i) is re-executed by the real layer
    on g.a_i and compared with g.b_i (tau=1e-4, no error accumulation, realistic activations);
(2) end to end: model(g.x) vs g.model(x) under a conditioning-aware threshold (kappa measured per case);
    on failure the two traces are aligned to name the first diverging layer.
Parameters are perturbed away from initialisation. Max-pool near ties => re-draw."""
from __future__ import annotations

import numpy as np

from .. import mlgen, probes
from ..ref import group as rgroup
from ..util import result, rng_for, viol

ID = "C07"
RULE = (
    "cases = architectures from the constructor space (UNet, ResNet, DilResNet, ConvBlock in both activation orders) x depth x "
    "blocks x convs x downsamples x activation {relu,gelu,tanh,None} x normalisation x pre-activation x bias mode x signatures "
    "incl. pseudo-types with unequal channels x torus flags x d in {2,3}, type-stable configurations, all parameters perturbed; "
    "all g in B_2, 10 class representatives of B_3 (quick) / all 48 (thorough); translations (any shift for ResNets/ConvBlocks "
    "on torus, multiples of the pooling factor for UNet). Non-trivial: >=1 convolution and >=1 nonlinearity/normalisation "
    "executed (from the trace), output not constant, g != e; distinct by architecture key."
)
RULE += " Fixed corner architectures incl. a wide (64-channel) ResNet; near-domain: U-Nets with 3x3 / 4x4 upsample filters (refused by the library; a tree that accepts them must commute)."
ASSUMPTIONS = [
    "reference action; harness-built invariant banks (M=3 conv, M=2 upsample)",
    "layer-synchronised tolerance 1e-4 (grey to 1e-3); end-to-end threshold max(1e-3, 100*kappa*1.2e-7); kappa>2000 => perturbation halved and re-drawn",
]
ANCHORS = [
    "ginjax.models:make_conv", "ginjax.models:handle_activation", "ginjax.models:ConvBlock.__call__", "ginjax.models:UNet.__call__", "ginjax.models:UNet.__init__",
    "ginjax.models:ResNet.__call__", "ginjax.models:DilResNet.__call__", "ginjax.geometric.multi_image:signature_union",
]
MIN_NONTRIVIAL = {"quick": 8, "thorough": 150}
WORKERS = {"quick": 8, "thorough": 16}
TIMEOUT = {"quick": 1500, "thorough": 10800}
MAX_INCONCLUSIVE_FRAC = 0.4
TAU_L, TAU_E = 1e-4, 1e-3

_trace = None


def cases(tier, seed):
    n2, n3 = (14, 2) if tier == "quick" else (260, 40)
    out = [{"D": 2} for _ in range(n2)] + [{"D": 3} for _ in range(n3)]
    # fixed corner architectures (both tiers): scalar/pseudo-scalar-only U-Nets (pooling of k=0 types), pseudo-vectors
    # through normalisation, two pooling levels on a non-square torus
    out += [{"D": f["D"], "cfg": f} for f in FIXED]
    return out


FIXED = [
    # near-domain (reject-or-commute): an equivariant U-Net whose transposed convolutions use 3x3 / 4x4 upsample filters instead
    # of the 2x2 ones the architecture is written for. The library refuses them (shape error at the skip concatenation); a tree
    # that accepts them claims an equivariant network, which must then commute like any other
    {"cls": "UNet", "D": 2, "equivariant": True, "near_domain": True, "up_M": 3, "in_sig": [[[0, 0], 1], [[1, 0], 1]], "out_sig": [[[1, 0], 1]], "depth": 2, "num_blocks": 1, "num_conv": 1, "num_downsamples": 1, "activation": "gelu", "norm": False, "preact": False, "bias": "auto", "bank_ks": [0, 1, 2], "torus": [True, True], "N": [8, 8]},
    {"cls": "UNet", "D": 2, "equivariant": True, "near_domain": True, "up_M": 4, "in_sig": [[[0, 0], 2]], "out_sig": [[[0, 0], 1], [[1, 0], 1]], "depth": 1, "num_blocks": 1, "num_conv": 1, "num_downsamples": 1, "activation": "relu", "norm": False, "preact": False, "bias": "mean", "bank_ks": [0, 1, 2], "torus": [False, False], "N": [4, 8]},
    # a wide network (64 channels per type, default scalar+vector mid types): code paths gated on the layer width
    {"cls": "ResNet", "D": 2, "equivariant": True, "in_sig": [[[0, 0], 1], [[1, 0], 1]], "out_sig": [[[1, 0], 1], [[0, 0], 1]], "depth": 64, "num_blocks": 1, "num_conv": 1, "num_downsamples": 1, "activation": "gelu", "norm": False, "preact": False, "bias": "auto", "bank_ks": [0, 1, 2], "torus": [True, True], "N": [4, 4]},
    {"cls": "UNet", "D": 2, "equivariant": True, "in_sig": [[[0, 1], 2]], "out_sig": [[[0, 1], 1]], "depth": 2, "num_blocks": 1, "num_conv": 1, "num_downsamples": 1, "activation": "relu", "norm": False, "preact": False, "bias": "auto", "bank_ks": [0, 1, 2], "torus": [True, True], "N": [4, 4]},
    {"cls": "UNet", "D": 2, "equivariant": True, "in_sig": [[[0, 0], 1], [[0, 1], 1]], "out_sig": [[[0, 1], 1], [[0, 0], 2]], "depth": 1, "num_blocks": 1, "num_conv": 1, "num_downsamples": 2, "activation": "gelu", "norm": True, "preact": False, "bias": "mean", "bank_ks": [0, 1, 2], "torus": [True, True], "N": [8, 4]},
    {"cls": "ResNet", "D": 2, "equivariant": True, "in_sig": [[[1, 1], 2], [[0, 0], 1]], "out_sig": [[[1, 1], 1]], "depth": 2, "num_blocks": 1, "num_conv": 2, "num_downsamples": 1, "activation": "tanh", "norm": True, "preact": True, "bias": "auto", "bank_ks": [0, 1, 2], "torus": [False, True], "N": [5, 4]},
]


def setup(ctx):
    global _trace
    _trace = mlgen.LayerTrace().install()
    return {}


LEAF = ("ConvContract", "GroupNorm", "VectorNeuronNonlinear", "MaxNormPool")


def group_sample(tier, D, rng):
    G = rgroup.hyperoctahedral(D)
    if D == 2 or tier == "thorough":
        return G
    return rgroup.conjugacy_class_reps(D)


def check_model(model, cfg, x, G, rng, sync=True, shifts=True):
    """Returns dict(status, viols, noise, kappa, n_events, layers). Used by C07 and C09."""
    D = cfg["D"]
    f = lambda z: model(z)[0]
    _trace.log.enabled = True
    _trace.log.clear()
    y = f(x)
    events = _trace.take()
    _trace.log.enabled = False
    leaf_events = [e for e in events if e["callee"] in LEAF and not e["traced"]]
    Y = probes.blocks(y)
    S = mlgen.trace_scale(x, y, *[e["out"] for e in leaf_events])
    layers = [e["callee"] for e in leaf_events]
    finite = all(np.all(np.isfinite(v)) for v in Y.values()) and all(np.all(np.isfinite(np.asarray(v))) for e in leaf_events for v in e["out"].data.values())
    if not finite or not np.isfinite(S) or S > 1e8:
        # activations near the float32 overflow of squared norms: not a meaningful execution to judge
        return {"viols": [], "noise": 0.0, "kappa": None, "n_events": len(leaf_events), "layers": layers, "status": "ill-conditioned", "why": f"activation scale {S:.3g}", "Y": Y}
    out = {"viols": [], "noise": 0.0, "kappa": None, "n_events": len(leaf_events), "layers": layers, "status": "held", "Y": Y}
    # near-tie guard on every MaxNormPool event
    for e in leaf_events:
        if e["callee"] == "MaxNormPool":
            if any(mlgen.near_tie(v, D, e["obj"].patch_len) for v in e["args"][0].data.values()):
                out["status"] = "redraw"
                out["why"] = "near tie in a max-pool patch"
                return out
    # genericity guard of the normalisation layers: near-singular covariance at some LayerNorm/GroupNorm event
    for e in leaf_events:
        if e["callee"] == "GroupNorm" and mlgen.near_singular_norm_input(e["obj"], e["args"][0], D):
            out["status"] = "redraw"
            out["why"] = "near-singular covariance at a normalisation layer (non-generic activations)"
            return out
    grey = False
    if sync:
        for idx, e in enumerate(leaf_events):
            layer, a, b = e["obj"], e["args"][0], e["out"]
            B = probes.blocks(b)
            Sl = mlgen.trace_scale(a, b)
            for g in G:
                try:
                    got = layer(mlgen.act_mi(a, g))
                except Exception as ex:
                    out["viols"].append(viol(f"layer-exception-{type(ex).__name__}", f"layer event {idx} {mlgen.layer_desc(e)} raised on g.a: {str(ex)[:200]}"))
                    out["status"] = "violated"
                    return out
                d, msg = mlgen.compare(got, mlgen.act_blocks(B, D, g, 1), 1, Sl)
                if d >= 10 * TAU_L:
                    if e["callee"] == "MaxNormPool" and any(mlgen.near_tie(v, D, layer.patch_len) for v in mlgen.act_mi(a, g).data.values()):
                        out["status"] = "redraw"
                        out["why"] = "near tie"
                        return out
                    mech = "network-layer-not-equivariant-" + e["callee"]
                    out["viols"].append(viol(mech, f"layer-synchronised check: event {idx} {mlgen.layer_desc(e)}: layer(g.a) != g.layer(a), defect {d:.3g} ({msg}) for g={g.tolist()}", event=idx, layer=mlgen.layer_desc(e), g=g.tolist()))
                    out["status"] = "violated"
                    return out
                if d > TAU_L:
                    grey = True
                out["noise"] = max(out["noise"], min(d, TAU_L))
    # end to end
    kappa = mlgen.sensitivity(f, x, rng, rel=1e-4)
    out["kappa"] = kappa
    if not np.isfinite(kappa) or kappa > 2000:
        out["status"] = "ill-conditioned"
        return out
    tau_case = max(TAU_E, 100 * kappa * 1.2e-7)
    worst, wg, wmsg = 0.0, None, None
    for g in G:
        ygx = f(mlgen.act_mi(x, g))
        d, msg = mlgen.compare(ygx, mlgen.act_blocks(Y, D, g, 1), 1, S)
        if msg is None and tuple(ygx.is_torus) != rgroup.transport(g, tuple(x.is_torus)):
            d, msg = float("inf"), f"flags {ygx.is_torus}"
        if d > worst:
            worst, wg, wmsg = d, g, msg
    if shifts and all(cfg["torus"]) and worst < 10 * tau_case:
        step = 2 ** cfg["num_downsamples"] if cfg["cls"] == "UNet" else 1
        for _ in range(2):
            shift = tuple(step * int(rng.integers(0, max(1, n // step))) for n in cfg["N"])
            ys = f(mlgen.roll_mi(x, shift))
            d, msg = mlgen.compare(ys, {t: np.roll(v, shift, axis=tuple(range(1, 1 + D))) for t, v in Y.items()}, 1, S)
            if d > worst:
                worst, wg, wmsg = d, None, f"translation by {shift}: {msg}"
    out["e2e"] = worst
    if worst >= 10 * tau_case:
        # localise: align the traces of the two runs
        where = "not localised"
        if wg is not None:
            _trace.log.enabled = True
            _trace.log.clear()
            f(mlgen.act_mi(x, wg))
            ev2 = [e for e in _trace.take() if e["callee"] in LEAF and not e["traced"]]
            _trace.log.enabled = False
            for idx, (e1, e2) in enumerate(zip(leaf_events, ev2)):
                d, msg = mlgen.compare(e2["out"], mlgen.act_blocks(probes.blocks(e1["out"]), D, wg, 1), 1, S)
                if d >= 10 * TAU_E:
                    din, _ = mlgen.compare(e2["args"][0], mlgen.act_blocks(probes.blocks(e1["args"][0]), D, wg, 1), 1, S)
                    where = f"first diverging event {idx}: {mlgen.layer_desc(e1)}; its input is {'related' if din < 10 * TAU_E else 'NOT related'} by g (glue before it)" if din >= 10 * TAU_E else f"first diverging event {idx}: {mlgen.layer_desc(e1)} (input related by g, output not)"
                    break
        out["viols"].append(viol("network-not-equivariant", f"model(g.x) != g.model(x): defect {worst:.3g} (threshold {tau_case:.2g}, kappa {kappa:.3g}) {wmsg} for g={None if wg is None else wg.tolist()}; {where}", g=None if wg is None else wg.tolist(), kappa=kappa, where=where))
        out["status"] = "violated"
        return out
    if worst > tau_case or grey:
        out["status"] = "grey"
        return out
    out["noise"] = max(out["noise"], worst if worst < TAU_E else 0.0)
    return out


def run(case, ctx):
    import contextlib
    import io

    rng = rng_for(ctx["seed"], ID, case["i"])
    D = case["D"]
    cfg = mlgen.gen_model_cfg(rng, D)
    if case.get("cfg"):
        cfg = dict(case["cfg"])
    key = {k: cfg[k] for k in ("cls", "D", "in_sig", "out_sig", "depth", "num_blocks", "num_conv", "num_downsamples", "activation", "norm", "preact", "bias", "torus", "N")}
    key["mid"] = cfg.get("mid")
    sink = io.StringIO()
    evals = 0
    G = group_sample(ctx["tier"], D, rng)
    try:
        with contextlib.redirect_stdout(sink):
            base = mlgen.build_model(cfg, case["i"])
            scale = 0.3
            res = None
            for attempt in range(4):
                model = mlgen.perturb(base, rng, scale)
                x = mlgen.random_multi(rng, mlgen.sig_of(cfg["in_sig"]), D, tuple(cfg["N"]), tuple(cfg["torus"]))
                res = check_model(model, cfg, x, G, rng)
                evals += 1 + res["n_events"] * len(G) + len(G)
                if res["status"] in ("held", "violated"):
                    break
                if res["status"] == "ill-conditioned":
                    scale /= 2
            status = res["status"]
            # the same model called the way users call it: as an argument of eqx.filter_jit (a pytree round trip of the
            # model, sorted dict keys, traced execution); its output must be related by g to the eager output
            jit_note = "not-run"
            if status == "held" and (case["i"] % 3 == 0 if ctx["tier"] == "thorough" else cfg["cls"] in ("ConvBlock", "ConvBlockPre")):
                import equinox as eqx

                g = G[int(rng.integers(1, len(G)))]
                yj = eqx.filter_jit(lambda m, z: m(z)[0])(model, mlgen.act_mi(x, g))
                evals += 1
                S = mlgen.trace_scale(x, *[probes.blocks(yj)])
                tau_case = max(TAU_E, 100 * (res["kappa"] or 1.0) * 1.2e-7)
                d, msg = mlgen.compare(yj, mlgen.act_blocks(res["Y"], D, g, 1), 1, S)
                jit_note = "held"
                if d >= 10 * tau_case:
                    res["viols"].append(viol("network-under-jit-not-equivariant", f"filter_jit(model)(g.x) != g.model(x) (eager): defect {d:.3g} ({msg}) for g={g.tolist()}; eager equivariance held", g=g.tolist()))
                    status = res["status"] = "violated"
                    jit_note = "violated"
    except Exception as e:
        import traceback

        if cfg.get("near_domain"):
            return result(key, [], False, evals=evals, obs={"near_domain_refused": 1}, hist={"cls": cfg["cls"] + "-near-domain", "D": D})
        return result(key, [viol(f"network-exception-{type(e).__name__}", f"{type(e).__name__}: {str(e)[:300]}; {key}; {traceback.format_exc()[-500:]}")], True, evals=evals, hist={"cls": cfg["cls"], "D": D})
    hist = {"cls": cfg["cls"], "D": D, "jit_variant": jit_note if "jit_note" in dir() else "not-run", "activation": str(cfg["activation"]), "norm": cfg["norm"], "bias": str(cfg["bias"]), "layers": sorted(set(res["layers"])), "pseudo": any(t[1] == 1 for t, _ in mlgen.sig_of(cfg["in_sig"]) + mlgen.sig_of(cfg["out_sig"]))}
    if status not in ("held", "violated"):
        return {"status": "inconclusive", "key": str(key), "nontrivial": False, "why": f"{status} after 4 draws (kappa={res.get('kappa')}, e2e={res.get('e2e')})", "evals": evals, "hist": hist}
    layers = res["layers"]
    const_out = all(np.ptp(v) == 0 for v in res["Y"].values())
    nontrivial = "ConvContract" in layers and any(l in layers for l in ("VectorNeuronNonlinear", "GroupNorm", "MaxNormPool")) and not const_out
    return result(key, res["viols"], nontrivial, evals=evals, noise=res["noise"], obs={"layer_events_checked": res["n_events"], "paired_executions": evals},
                  hist=hist, sample={"arch": key, "n_layer_events": res["n_events"], "kappa": res["kappa"], "e2e_defect": res.get("e2e")})


def finalize(tier, results, obs, hist, metas):
    problems = []
    seen = set(hist.get("cls", {}))
    need = {"UNet", "ResNet", "DilResNet", "ConvBlock", "ConvBlockPre"} if tier == "thorough" else {"UNet", "ResNet", "DilResNet"}
    if not need <= seen:
        problems.append(f"model classes not all observed: {sorted(need - seen)}")
    return {}, problems
