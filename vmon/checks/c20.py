"""C20 — every model maps its input signature to exactly its requested output signature.

R-monitor = type-flow along the layer trace: class-level recorders on every layer record the run; at
every ConvContract event the emitted types must be exactly the target types reachable through the bank,
in target order, with the requested channel counts; the model's result must carry the requested output
types (reachable ones), channel counts and order, and the input's spatial extents, D and flags. The
icontract structural invariant on MultiImage is deciding. Conventional mode: the scalar flatten/unflatten
is observed through ModelWrapper with harness inner models and unique ids (reference re-layout). Wrapper classes are
models too: a group-averaged variant of every third model and Climate1D (past/future steps 1..3, every type order)."""
from __future__ import annotations

import numpy as np

from .. import mlgen, monitors, probes
from ..ref import misc as rmisc
from ..util import result, rng_for, viol

ID = "C20"
RULE = (
    "cases = (model class in {UNet, ResNet, DilResNet, ConvBlock} x equivariant flag x signatures with several types/pseudo-types, "
    "unequal channels, shuffled order x depth x blocks x convs x downsamples x normalisation x bias mode x activation x d in {2,3} "
    "x torus flags x compatible extents), both the freshly constructed model and the same model after a pytree round trip "
    "(what every optimiser step does); ModelWrapper cases with identity / channel-permuting inner models on unique ids; three "
    "fixed partial-bank U-Net configurations. Non-trivial: >=2 output types or conventional relayout with k>=1; distinct by configuration."
)
RULE += " Conventional U-Net with batch normalisation (state + the two named batch maps of the training entry points; training and inference mode; mixed flags). ModelWrapper is also called on batched inputs and with inner models that change the channel count. Also: a group-averaged variant of every third model, kernel sizes, Climate1D cases (past/future 1..3, every type order)."
ASSUMPTIONS = ["type order is checked on eager calls only (under jit JAX sorts dict keys; C12/C13 say order must then not matter)", "reachability computed from the bank's type set (vmon/mlgen.py:type_flow)"]
ANCHORS = [
    "ginjax.models:UNet.__call__", "ginjax.models:ResNet.__call__", "ginjax.models:DilResNet.__call__", "ginjax.models:ConvBlock.__call__", "ginjax.models:ModelWrapper.__call__",
    "ginjax.geometric.multi_image:MultiImage.to_scalar_multi_image", "ginjax.geometric.multi_image:MultiImage.from_scalar_multi_image", "ginjax.ml.layers:LayerWrapper.__call__",
    "ginjax.ml.layers:ConvContract.__call__", "ginjax.ml.layers:LayerWrapperAux.__call__",
]
MIN_NONTRIVIAL = {"quick": 15, "thorough": 250}
WORKERS = {"quick": 8, "thorough": 16}
TIMEOUT = {"quick": 1500, "thorough": 10800}

K1_CONFIGS = [
    {"cls": "UNet", "D": 2, "equivariant": True, "in_sig": [[[0, 0], 1]], "out_sig": [[[0, 1], 1], [[1, 1], 1]], "depth": 1, "num_blocks": 1, "num_conv": 1, "num_downsamples": 1, "activation": "relu", "norm": False, "preact": False, "bias": "auto", "bank_ks": [0, 1, 2], "torus": [True, True], "N": [4, 4]},
    {"cls": "UNet", "D": 2, "equivariant": True, "in_sig": [[[0, 0], 2]], "out_sig": [[[1, 1], 1], [[0, 1], 2]], "depth": 2, "num_blocks": 1, "num_conv": 2, "num_downsamples": 1, "activation": None, "norm": False, "preact": False, "bias": False, "bank_ks": [0, 1, 2], "torus": [False, False], "N": [4, 4]},
    {"cls": "UNet", "D": 2, "equivariant": True, "in_sig": [[[0, 1], 1]], "out_sig": [[[0, 0], 1], [[1, 0], 1]], "depth": 1, "num_blocks": 1, "num_conv": 1, "num_downsamples": 2, "activation": "gelu", "norm": False, "preact": False, "bias": "mean", "bank_ks": [0, 1, 2], "torus": [True, True], "N": [4, 4]},
]


def cases(tier, seed):
    n = 26 if tier == "quick" else 360
    out = []
    for i in range(n):
        out.append({"kind": "model", "D": 2 if i % 6 else 3, "equivariant": bool(i % 3)})
    for j, c in enumerate(K1_CONFIGS):
        out.append({"kind": "fixed", "cfg": c})
    for i in range(12 if tier == "quick" else 120):
        out.append({"kind": "wrapper"})
    # the climate wrapper is a model too: (lon, lat) signature in, requested signature out, for every step count
    for i in range(6 if tier == "quick" else 60):
        out.append({"kind": "climate"})
    # the conventional U-Net with batch normalisation: only runs with a state and inside the two named batch maps the
    # training entry points establish ("pmap_batch" outside, "batch" inside); it is a constructor setting like any other
    for i in range(4 if tier == "quick" else 40):
        out.append({"kind": "batchnorm"})
    return out


_trace = None
_struct = None


def setup(ctx):
    global _trace, _struct
    _trace = mlgen.LayerTrace().install()
    _struct = monitors.StructureMonitor().install()
    return rmisc.selftest()


def run(case, ctx):
    if case["kind"] == "wrapper":
        return run_wrapper(case, ctx)
    if case["kind"] == "climate":
        return run_climate(case, ctx)
    if case["kind"] == "batchnorm":
        return run_batchnorm(case, ctx)
    return run_model(case, ctx)


def run_batchnorm(case, ctx):
    """Conventional UNet(use_batch_norm=True): eqx.nn.make_with_state + vmap(axis_name="pmap_batch") of vmap(axis_name="batch"),
    the calling convention of ml.train_step / ml.evaluate. Types (as a set: jax sorts the blocks behind vmap), channel counts,
    both leading axes, extents, D and the per-axis flags of the result are compared with the request; training and inference mode."""
    import contextlib
    import io

    import equinox as eqx
    import jax
    import jax.numpy as jnp
    import ginjax.geometric as geom
    import ginjax.models as models

    rng = rng_for(ctx["seed"], ID, case["i"])
    D = 2 if rng.integers(0, 4) else 3
    pool = [(0, 0), (0, 1), (1, 0), (1, 1)] + ([(2, 0)] if D == 2 else [])
    in_sig = [(pool[i], int(rng.integers(1, 3))) for i in rng.choice(len(pool), size=int(rng.integers(1, 4)), replace=False)]
    out_sig = [(pool[i], int(rng.integers(1, 3))) for i in rng.choice(len(pool), size=int(rng.integers(1, 4)), replace=False)]
    downs = int(rng.integers(1, 3)) if D == 2 else 1
    N = tuple(int(v) * 2**downs for v in rng.integers(1, 3, size=D))
    torus = tuple(bool(v) for v in rng.integers(0, 2, size=D))
    if case["i"] % 2 == 0 and all(torus):
        torus = (True,) + (False,) * (D - 1)
    lead = (int(rng.integers(1, 3)), int(rng.integers(1, 4)))
    cfg = {"cls": "UNet", "D": D, "equivariant": False, "batch_norm": True, "in_sig": in_sig, "out_sig": out_sig, "depth": int(rng.integers(1, 4)), "num_downsamples": downs,
           "num_conv": int(rng.integers(1, 3)), "bias": ["auto", True, False][int(rng.integers(3))], "kernel_size": int([3, 3, 1, 5][int(rng.integers(4))]), "N": N, "torus": torus, "lead": lead}
    viols, evals = [], 0
    _struct.take()
    try:
        with contextlib.redirect_stdout(io.StringIO()):
            model, state = eqx.nn.make_with_state(models.UNet)(D, mlgen.signature(in_sig), mlgen.signature(out_sig), depth=cfg["depth"], num_downsamples=downs, num_conv=cfg["num_conv"],
                                                              use_bias=cfg["bias"], equivariant=False, kernel_size=cfg["kernel_size"], use_batch_norm=True, key=jax.random.PRNGKey(case["i"]))
        x = geom.MultiImage({t: jnp.asarray(rng.normal(size=lead + (c,) + N + (D,) * t[0]).astype(np.float32)) for t, c in in_sig}, D, torus)
        for mode in ("training", "inference"):
            m = eqx.nn.inference_mode(model, value=(mode == "inference"))
            call = jax.vmap(jax.vmap(m, in_axes=(0, None), out_axes=(0, None), axis_name="batch"), in_axes=(0, None), out_axes=(0, None), axis_name="pmap_batch")
            y, new_state = call(x, state)
            evals += 1
            got = sorted((tuple(t), tuple(int(v) for v in y[t].shape)) for t in y.keys())
            want = sorted((t, lead + (c,) + N + (D,) * t[0]) for t, c in out_sig)
            if [t for t, _ in got] != [t for t, _ in want]:
                viols.append(viol("model-output-signature", f"[batch norm, {mode}] UNet returned types {[t for t, _ in got]}, requested {[t for t, _ in want]}; {cfg}"))
            elif got != want:
                viols.append(viol("model-output-shape", f"[batch norm, {mode}] block shapes {got}, requested {want}; {cfg}"))
            if y.D != D or tuple(y.is_torus) != torus:
                viols.append(viol("model-output-metadata", f"[batch norm, {mode}] D/is_torus {y.D}/{tuple(y.is_torus)} != {D}/{torus}; {cfg}"))
            if not all(bool(np.all(np.isfinite(np.asarray(v)))) for v in y.values()):
                viols.append(viol("model-output-nonfinite", f"[batch norm, {mode}] non-finite output; {cfg}"))
            if mode == "inference" and not viols:
                # inference mode uses the stored statistics only: an entry's prediction cannot depend on its co-batched entries
                j = int(rng.integers(lead[1]))
                xs = geom.MultiImage({t: v[:, j : j + 1] for t, v in x.items()}, D, torus)
                ys, _ = call(xs, state)
                evals += 1
                for t in y.keys():
                    a, b = np.asarray(y[t])[:, j : j + 1], np.asarray(ys[t])
                    if a.shape != b.shape or not np.allclose(a, b, rtol=1e-3, atol=1e-3 * max(1.0, float(np.abs(a).max()))):
                        viols.append(viol("batchnorm-inference-depends-on-batch", f"[batch norm, inference] entry {j} of the batch differs from the same entry alone in block {t}; {cfg}"))
                        break
            if viols:
                break
    except Exception as e:
        import traceback

        viols.append(viol(f"model-exception-{type(e).__name__}", f"UNet(use_batch_norm=True) raised {type(e).__name__}: {str(e)[:300]}; {cfg}; {traceback.format_exc()[-500:]}"))
    viols += _struct.take()[:2]
    key = {k: (str(v) if k in ("in_sig", "out_sig") else v) for k, v in cfg.items()}
    return result(key, dedup(viols), len(out_sig) >= 2 or any(t[0] >= 1 for t, _ in out_sig), evals=evals, obs={"model_calls": evals, "batchnorm_calls": evals},
                  hist={"cls": "UNet+BatchNorm", "D": D, "equivariant": False, "n_out_types": len(out_sig)}, sample={"cfg": key})


def run_climate(case, ctx):
    import jax.numpy as jnp
    import ginjax.geometric as geom
    import ginjax.models as models

    rng = rng_for(ctx["seed"], ID, case["i"])
    n_lon, n_lat = int(rng.integers(2, 7)), int(rng.integers(2, 7))
    past, future = int(rng.integers(1, 4)), int(rng.integers(1, 4))
    pool = [(0, 0), (0, 1), (1, 0)]
    dyn = [(pool[i], int(rng.integers(1, 3))) for i in rng.choice(3, size=int(rng.integers(1, 4)), replace=False)]
    const_sig = [{}, {(0, 0): 1}, {(0, 0): 2, (0, 1): 1}, {(0, 1): 1}][int(rng.integers(4))]
    out_sig = [(pool[i], int(rng.integers(1, 3)) * future) for i in rng.choice(3, size=int(rng.integers(1, 4)), replace=False)]
    torus = (True, False)
    # output_is_torus is a constructor argument with default (True, False): other values in one case of two
    out_torus = [(True, False), (False, False), (True, True), (False, True)][int(case["i"]) % 4] if case["i"] % 2 else (True, False)
    key = {"kind": "climate", "output_is_torus": out_torus, "lon": n_lon, "lat": n_lat, "past": past, "future": future, "dyn": dyn, "const": {str(t): c for t, c in const_sig.items()}, "out": out_sig}
    viols = []
    try:
        blocks = {}
        for t in [t for t, _ in dyn] + [t for t in const_sig if t not in dict(dyn)]:
            c = dict(dyn).get(t, 0) * past + const_sig.get(t, 0)
            blocks[t] = jnp.asarray(rng.normal(size=(c, n_lon, n_lat) + (2,) * t[0]).astype(np.float32))
        x = geom.MultiImage(blocks, 2, torus)
        out_keys = mlgen.signature(out_sig)
        sig1d = models.Climate1D.get_1d_signature(out_keys, n_lat)

        class Inner1D(models.MultiImageModule):
            def __call__(self, z, aux_data=None):
                n = next(iter(z.values())).shape[-1]
                base = sum(jnp.mean(v) for v in z.values())
                return geom.MultiImage({t: base + jnp.arange(c * n, dtype=jnp.float32).reshape((c, n)) for t, c in sig1d}, 1, (True,)), aux_data

        model = models.Climate1D(Inner1D(), out_keys, past, future, (n_lon, n_lat), dict(const_sig), out_torus) if out_torus != (True, False) or case["i"] % 4 == 0 else models.Climate1D(Inner1D(), out_keys, past, future, (n_lon, n_lat), dict(const_sig))
        y = model(x)[0]
        want_keys = [t for t, _ in out_sig]
        if list(y.keys()) != want_keys:
            viols.append(viol("model-output-types" if set(y.keys()) != set(want_keys) else "output-type-order", f"Climate1D returned types {list(y.keys())}, requested {want_keys}; {key}"))
        else:
            for t, c in out_sig:
                if tuple(y[t].shape) != (c, n_lon, n_lat) + (2,) * t[0]:
                    viols.append(viol("model-output-shape", f"Climate1D block {t} has shape {tuple(y[t].shape)}, requested {(c, n_lon, n_lat) + (2,) * t[0]}; {key}"))
            if y.D != 2 or tuple(y.is_torus) != out_torus:
                viols.append(viol("model-output-metadata", f"Climate1D output D/is_torus {y.D}/{y.is_torus}, requested 2/{out_torus}; {key}"))
    except Exception as e:
        import traceback

        viols.append(viol(f"model-exception-{type(e).__name__}", f"Climate1D raised {type(e).__name__}: {str(e)[:300]}; {key}; {traceback.format_exc()[-400:]}"))
    viols += [v for v in _struct.take()][:2]
    return result(key, viols, len(out_sig) >= 2 or future >= 2, evals=1, obs={"climate_calls": 1}, hist={"cls": "Climate1D", "D": 2, "equivariant": False}, sample={"cfg": key})


def run_model(case, ctx):
    import contextlib
    import io

    import jax

    rng = rng_for(ctx["seed"], ID, case["i"])
    if case["kind"] == "fixed":
        cfg = dict(case["cfg"])
        eq = True
    else:
        eq = case["equivariant"]
        D = case["D"]
        cfg = mlgen.gen_model_cfg(rng, D, classes=("UNet", "ResNet", "DilResNet", "ConvBlock"), stable_only=False, equivariant=eq)
        if not eq:
            cfg["bias"] = ["auto", True, False][int(rng.integers(3))]
            cfg["kernel_size"] = int([1, 3, 3, 5][int(rng.integers(4))])
            if cfg["cls"] == "ConvBlock":
                # the conventional ConvBlock is a scalar-channel block
                cfg["in_sig"] = [[[0, 0], int(rng.integers(1, 4))]]
                cfg["out_sig"] = [[[0, 0], int(rng.integers(1, 4))]]
    D = cfg["D"]
    key = {k: cfg[k] for k in ("cls", "D", "equivariant", "in_sig", "out_sig", "depth", "num_blocks", "num_conv", "num_downsamples", "activation", "norm", "preact", "bias", "torus", "N")}
    key["mid"] = cfg.get("mid")
    sink = io.StringIO()
    viols, evals = [], 0
    requested = mlgen.sig_of(cfg["out_sig"])
    if eq:
        stable, reach_out, notes = mlgen.type_flow(cfg)
    else:
        stable, reach_out, notes = True, [t for t, _ in requested], []
    k1 = any("U-Net skip concat" in n for n in notes)
    _struct.take()
    n_conv_events = 0
    try:
        with contextlib.redirect_stdout(sink):
            base = mlgen.build_model(cfg, case["i"])
            x = mlgen.random_multi(rng, mlgen.sig_of(cfg["in_sig"]), D, tuple(cfg["N"]), tuple(cfg["torus"]))
            variants = [("fresh", base), ("after-pytree-round-trip", jax.tree_util.tree_map(lambda l: l, base))]
            if case["kind"] == "model" and case["i"] % 3 == 0 and stable:
                # the symmetrisation wrapper is a model class too: averaging over C2^d must hand back the same signature
                import ginjax.models as models
                from ..ref import group as rgroup

                variants.append(("group-averaged", models.GroupAverage(base, [np.asarray(g) for g in rgroup.subgroups(D)["C2d"]], always_average=True)))
            for vname, model in variants:
                _trace.log.enabled = True
                _trace.log.clear()
                try:
                    y = model(x)[0]
                finally:
                    events = _trace.take()
                    _trace.log.enabled = False
                evals += 1
                # (a) type flow at every ConvContract event
                for idx, e in enumerate(events):
                    if e["callee"] != "ConvContract" or e["traced"]:
                        continue
                    n_conv_events += 1
                    layer, a, b = e["obj"], e["args"][0], e["out"]
                    bt = set(layer.invariant_filters.keys())
                    want = [(t, c) for t, c in layer.target_keys if t in mlgen.reachable(list(a.keys()), [t], bt)]
                    got = [(tuple(t), int(c)) for t, c in b.get_signature()]
                    want = [(tuple(t), int(c)) for t, c in want]
                    if got != want:
                        mech = "D7-output-type-order" if sorted(got) == sorted(want) else "layer-signature"
                        viols.append(viol(mech, f"[{vname}] ConvContract event {idx} emitted signature {got}, requested/reachable {want} (input types {list(a.keys())})", event=idx, variant=vname))
                        break
                # (b) the model's result
                got = [(tuple(t), int(c)) for t, c in y.get_signature()]
                want = [(t, c) for t, c in requested if t in reach_out]
                if got != want:
                    if sorted(got) == sorted(want):
                        mech = "D7-output-type-order"
                    else:
                        mech = "model-output-signature"
                    viols.append(viol(mech, f"[{vname}] {cfg['cls']} (equivariant={eq}) returned signature {got}, requested {want}; {key}", variant=vname))
                if y.data and tuple(y.get_spatial_dims()) != tuple(cfg["N"]):
                    viols.append(viol("model-output-spatial", f"[{vname}] output extents {y.get_spatial_dims()} != input extents {cfg['N']}; {key}"))
                if y.D != D or tuple(y.is_torus) != tuple(cfg["torus"]):
                    viols.append(viol("model-output-metadata", f"[{vname}] D/is_torus {y.D}/{y.is_torus} != {D}/{cfg['torus']}; {key}"))
                if viols:
                    break
    except Exception as e:
        import traceback

        if k1:
            viols.append(viol("K1-unet-partial-bank-skip-type-mismatch", f"{type(e).__name__}: {str(e)[:160]}; type flow: {notes}; {key}", notes=notes))
        else:
            viols.append(viol(f"model-exception-{type(e).__name__}", f"{type(e).__name__}: {str(e)[:300]}; stable={stable} notes={notes}; {key}; {traceback.format_exc()[-500:]}"))
    sv = _struct.take()
    viols += sv[:2]
    nontrivial = len(requested) >= 2 or (not eq and any(t[0] >= 1 for t, _ in requested))
    return result(key, dedup(viols), nontrivial, evals=evals, obs={"model_calls": evals, "convcontract_events_checked": n_conv_events, "unstable_configs": int(not stable)},
                  hist={"cls": cfg["cls"], "D": D, "equivariant": eq, "stable": stable, "bias": str(cfg["bias"]), "norm": cfg["norm"], "n_out_types": len(requested)}, sample={"cfg": key, "type_flow_notes": notes})


def dedup(viols):
    seen, out = set(), []
    for v in viols:
        if v["mechanism"] not in seen:
            seen.add(v["mechanism"])
            out.append(v)
    return out


def run_wrapper(case, ctx):
    import jax.numpy as jnp
    import equinox as eqx
    import ginjax.geometric as geom
    import ginjax.models as models

    rng = rng_for(ctx["seed"], ID, case["i"])
    D = int(rng.choice([2, 2, 3]))
    pool = [(k, p) for k in range(3 if D == 2 else 2) for p in (0, 1)]
    types = [pool[i] for i in rng.choice(len(pool), size=int(rng.integers(1, 4)), replace=False)]
    sig = [(t, int(rng.integers(1, 4))) for t in types]
    sp = tuple(int(v) for v in rng.integers(1, 4, size=D))
    torus = tuple(bool(v) for v in rng.integers(0, 2, size=D))
    # the wrapper is also called directly on batched inputs (a leading batch axis in front of the channels)
    lead = () if rng.integers(0, 2) else (int(rng.integers(2, 5)),)
    blocks, nid = {}, 1
    for (k, p), c in sig:
        shp = lead + (c,) + sp + (D,) * k
        n = int(np.prod(shp))
        blocks[(k, p)] = (nid + np.arange(n)).reshape(shp).astype(np.float32)
        nid += n
    x = geom.MultiImage({t: jnp.asarray(v) for t, v in blocks.items()}, D, torus)
    C = sum(c * D ** t[0] for t, c in sig)
    mode = ["identity", "permute", "resample"][int(rng.integers(3))]
    # output layout: identity / a permutation of the scalar channels regrouped into a signature of the same size / an inner
    # model that changes the number of channels (selects and repeats input channels) with an unrelated output signature
    out_sig = sig if mode == "identity" or (mode == "permute" and rng.integers(0, 2)) else sig[::-1]
    if mode == "resample":
        otypes = [pool[i] for i in rng.choice(len(pool), size=int(rng.integers(1, 4)), replace=False)]
        out_sig = [(t, int(rng.integers(1, 4))) for t in otypes]
    C_out = sum(c * D ** t[0] for t, c in out_sig)
    perm = np.arange(C) if mode == "identity" else (rng.permutation(C) if mode == "permute" else rng.integers(0, C, size=C_out))

    class Inner(eqx.Module):
        perm: tuple = eqx.field(static=True)

        def __call__(self, arr):
            return jnp.take(arr, jnp.asarray(self.perm), axis=arr.ndim - D - 1)

    class InnerAux(eqx.Module):
        # a vanilla model with state (pass_aux_data=True): takes (array, aux) and hands back (array, new aux)
        perm: tuple = eqx.field(static=True)

        def __call__(self, arr, aux):
            return jnp.take(arr, jnp.asarray(self.perm), axis=arr.ndim - D - 1), {"calls": aux["calls"] + 1}

    # the toroidal structure of the output is an argument of the wrapper (output_is_torus), not copied from the input:
    # in one case of three it differs from the input's flags, in the bool form in one of six
    out_torus = torus
    if case["i"] % 3 == 1:
        out_torus = tuple(not f for f in torus) if case["i"] % 6 == 1 else bool(case["i"] % 4 == 0)
    want_torus = (out_torus,) * D if isinstance(out_torus, bool) else tuple(out_torus)
    pass_aux = case["i"] % 2 == 1
    key = {"D": D, "sig": sig, "out_sig": out_sig, "sp": sp, "mode": mode, "lead": lead, "pass_aux_data": pass_aux, "output_is_torus": out_torus}
    viols = []
    _struct.take()
    try:
        if pass_aux:
            wrapper = models.ModelWrapper(D, InnerAux(tuple(int(v) for v in perm)), mlgen.signature(out_sig), out_torus, pass_aux_data=True)
            y, aux_out = wrapper(x, {"calls": 4})
            if not isinstance(aux_out, dict) or int(aux_out.get("calls", -1)) != 5:
                viols.append(viol("wrapper-aux-data", f"ModelWrapper(pass_aux_data=True): the inner model's new state {{'calls': 5}} came back as {aux_out!r}; {key}"))
        else:
            wrapper = models.ModelWrapper(D, Inner(tuple(int(v) for v in perm)), mlgen.signature(out_sig), out_torus)
            y, aux_out = wrapper(x, "state-not-for-the-inner-model")
            if aux_out != "state-not-for-the-inner-model":
                viols.append(viol("wrapper-aux-data", f"ModelWrapper(pass_aux_data=False) changed the aux_data it was handed: {aux_out!r}; {key}"))
        # the models flatten their input in sorted type order (what jit/vmap produce); outputs are assigned in output_keys order
        flat = rmisc.to_scalar_layout({t: blocks[t] for t in sorted(blocks)}, D, 1 + len(lead))
        want = rmisc.from_scalar_layout(np.take(flat, perm, axis=len(lead)), out_sig, D, 1 + len(lead))
        got_sig = [(tuple(t), int(c)) for t, c in y.get_signature()]
        if got_sig != [(t, c) for t, c in out_sig]:
            viols.append(viol("wrapper-output-signature", f"ModelWrapper returned {got_sig}, requested {out_sig}"))
        else:
            for t in want:
                g = np.asarray(y[t])
                if g.shape != want[t].shape or not np.array_equal(g, want[t]):
                    viols.append(viol("conventional-relayout-position", f"component of type {t} landed at another position after flatten/unflatten (mode {mode}); {key}"))
                    break
        if y.D != D or tuple(y.is_torus) != want_torus:
            viols.append(viol("wrapper-metadata", f"D/is_torus {y.D}/{tuple(y.is_torus)}, requested {D}/{want_torus}; {key}"))
    except Exception as e:
        import traceback

        viols.append(viol(f"wrapper-exception-{type(e).__name__}", f"{type(e).__name__}: {str(e)[:300]}; {key}; {traceback.format_exc()[-300:]}"))
    viols += _struct.take()[:2]
    return result({"kind": "wrapper", **key}, viols, any(t[0] >= 1 for t, _ in sig), evals=1, obs={"wrapper_calls": 1}, hist={"cls": "ModelWrapper", "D": D, "equivariant": False, "wrapper_mode": mode + ("-batched" if lead else "")}, sample={"cfg": key})


def finalize(tier, results, obs, hist, metas):
    problems = []
    if obs.get("convcontract_events_checked", 0) == 0:
        problems.append("no ConvContract event observed")
    if obs.get("batchnorm_calls", 0) == 0:
        problems.append("no call of a batch-normalised U-Net observed")
    return {}, problems
