"""C17 — mini-batching is an aligned partition of the data set.

H-monitor: recorder on ml.get_batches (all namespaces; also get_subset / reshape_pmap entry counters);
sample i carries id i in every entry of every block of every co-batched multi-image, so the id sequence
of every returned batch is read off exactly: count, no repeats within an epoch, identical sequences
across multi-images and types, identity order without a key, device axis only reshapes. Variants: the same object co-batched
twice, NumPy / jax blocks mixed, typed keys. Consumer workload: ml.map_plus_loss_in_batches / map_loss_in_batches
(get_batches -> pmap'ed evaluate -> merge_axes -> concat) must return model(x_i, y_i) for exactly the batched samples."""
from __future__ import annotations

import numpy as np

from .. import probes
from ..util import result, rng_for, viol

ID = "C17"
RULE = (
    "cases = (L<=40, B<=L incl. non-divisible, key None or random, 1..3 co-batched multi-images with different type "
    "sets and block shapes, device list length 1 or 2 (duplicated CPU device) dividing B); unique sample ids. "
    "Non-trivial: random key and >=2 co-batched multi-images or >=2 types; distinct by (L,B,key kind,layout,devices)."
)
RULE += " Also: L up to 1200, typed PRNG keys, the same object co-batched twice, NumPy and jax blocks mixed, and the consumer ml.map_plus_loss_in_batches / map_loss_in_batches on unique ids."
ASSUMPTIONS = ["one CPU device in the sandbox: a 2-device list is the same device twice (only its length is used by reshape_pmap)"]
ANCHORS = ["ginjax.ml.training:get_batches", "ginjax.geometric.multi_image:MultiImage.get_subset", "ginjax.geometric.multi_image:MultiImage.reshape_pmap"]
MIN_NONTRIVIAL = {"quick": 60, "thorough": 2500}
WORKERS = {"quick": 6, "thorough": 16}
TIMEOUT = {"quick": 900, "thorough": 3600}
TYPESETS = [[(0, 0)], [(0, 0), (1, 0)], [(1, 1), (0, 1), (0, 0)], [(2, 0), (1, 0)], [(0, 1)]]


def cases(tier, seed):
    n = 200 if tier == "quick" else 8000
    return [{"n": i} for i in range(n)]


class BatchMonitor:
    """Boundary recorder on get_batches; decoding is done by the workload (it knows the id encoding),
    the monitor checks the structural facts that need no ids: count and shapes."""

    def __init__(self):
        self.viol = []
        self.checked = 0
        self.log = probes.EventLog()
        self.log.enabled = False

    def install(self):
        import ginjax.ml.training as tr

        probes.install_function(tr, "get_batches", "ml.get_batches", self.log, self._on)
        return self

    def _on(self, ev):
        import jax
        from ginjax.geometric.multi_image import MultiImage

        names = ("multi_images", "batch_size", "rand_key", "devices")
        d = {"devices": None}
        d.update(dict(zip(names, ev["args"])))
        d.update(ev["kwargs"])
        mis = d["multi_images"]
        if isinstance(mis, MultiImage):
            mis = (mis,)
        L, B = mis[0].get_L(), d["batch_size"]
        ndev = len(d["devices"]) if d["devices"] is not None else len(jax.devices())
        out = ev["out"]
        self.checked += 1
        if len(out) != len(mis):
            self.viol.append(viol("batch-list-count", f"{len(out)} batch lists for {len(mis)} multi-images"))
            return
        for j, (mi, lst) in enumerate(zip(mis, out)):
            if len(lst) != L // B:
                self.viol.append(viol("batch-count", f"multi-image {j}: {len(lst)} batches for L={L}, B={B}; floor(L/B)={L // B}", L=L, B=B))
                return
            for b in lst:
                for t, blk in b.data.items():
                    want = (ndev, B // ndev) + tuple(mi[t].shape[1:])
                    if tuple(blk.shape) != want:
                        self.viol.append(viol("batch-shape", f"batch block {t} has shape {tuple(blk.shape)}, expected {want}", L=L, B=B))
                        return

    def take(self):
        v, self.viol = self.viol, []
        return v


_mon = None
_counts = {"get_subset": 0, "reshape_pmap": 0}


def setup(ctx):
    global _mon
    import ginjax.ml  # noqa: F401
    from ginjax.geometric.multi_image import MultiImage

    _mon = BatchMonitor().install()
    log = probes.EventLog()
    log.enabled = False
    probes.wrap_method(MultiImage, "get_subset", "MultiImage.get_subset", log, lambda ev: _counts.__setitem__("get_subset", _counts["get_subset"] + 1))
    probes.wrap_method(MultiImage, "reshape_pmap", "MultiImage.reshape_pmap", log, lambda ev: _counts.__setitem__("reshape_pmap", _counts["reshape_pmap"] + 1))
    return {}


def run(case, ctx):
    import jax
    import jax.numpy as jnp
    import ginjax.geometric as geom
    import ginjax.ml as ml

    rng = rng_for(ctx["seed"], ID, case["i"])
    L = int(rng.integers(1, 41))
    if case["i"] % 10 == 9:
        L = int(rng.integers(300, 1200))  # realistic sizes (code paths gated on the size)
    B = int(rng.integers(1, L + 1)) if L <= 40 else int(rng.choice([16, 32, 64, 100, 128]))
    if case["i"] % 12 == 5:
        B = L + int(rng.integers(1, L + 2))  # a data set smaller than one batch: floor(L/B) = 0 batches, nothing repeated
    ndev = 2 if (B % 2 == 0 and rng.integers(0, 2)) else 1
    devices = [jax.devices()[0]] * ndev
    use_default_devices = ndev == 1 and bool(rng.integers(0, 2))
    key_kind = ["none", "random", "random"][int(rng.integers(3))]
    kseed = int(rng.integers(0, 2**31 - 1))
    rkey = None if key_kind == "none" else (jax.random.PRNGKey(kseed) if kseed % 2 else jax.random.key(kseed))  # legacy uint32 key / new-style typed key
    D = int(rng.choice([1, 2, 3]))
    n_mi = int(rng.integers(1, 4))
    mis, layouts = [], []
    for j in range(n_mi):
        ts = TYPESETS[int(rng.integers(len(TYPESETS)))]
        if D == 1:
            ts = [t for t in ts if t[0] == 0] or [(0, 0)]
        sp = tuple(int(v) for v in rng.integers(1, 3, size=D))
        blocks = {}
        for (k, p) in ts:
            c = int(rng.integers(1, 3))
            inner = (c,) + sp + (D,) * k
            n_in = int(np.prod(inner))
            vals = np.arange(L)[:, None] * 512 + (np.arange(n_in)[None, :] % 512)  # < 2^24 for L < 32768
            # one case in five keeps the data set as NumPy arrays (as loaded from disk)
            blocks[(k, p)] = (lambda v: v)(vals.reshape((L,) + inner).astype(np.float32)) if (case["i"] % 5 == 2 or (case["i"] % 5 == 3 and rng.integers(0, 2))) else jnp.asarray(vals.reshape((L,) + inner).astype(np.float32))  # i%5==3: NumPy and jax blocks mixed
        mis.append(geom.MultiImage(blocks, D, True))
        layouts.append({str(t): list(v.shape) for t, v in blocks.items()})
    # identical operands: the very same object may be co-batched with itself (inputs == targets of an auto-encoder)
    if rng.integers(0, 5) == 0:
        mis.append(mis[0])
        layouts.append(layouts[0])
        n_mi += 1
    arg = mis[0] if (n_mi == 1 and rng.integers(0, 2)) else tuple(mis)
    keyd = {"L": L, "B": B, "ndev": ndev, "key": key_kind, "D": D, "layouts": layouts}
    viols = []
    _mon.take()
    try:
        out = ml.get_batches(arg, B, rkey, None if use_default_devices else devices)
    except Exception as e:
        return result(keyd, [viol(f"get_batches-exception-{type(e).__name__}", f"{type(e).__name__}: {str(e)[:200]}; {keyd}")], True, hist={"D": D})
    viols += _mon.take()
    seqs = []
    if not viols:
        for j, lst in enumerate(out):
            for (k, p) in mis[j].keys():
                seq = []
                orig = np.asarray(mis[j][(k, p)])
                for b in lst:
                    blk = np.asarray(b[(k, p)])
                    flat = blk.reshape((-1,) + blk.shape[2:])  # device axis only reshapes
                    for entry in flat:
                        sid = int(entry.reshape(-1)[0]) // 512
                        if sid < 0 or sid >= L or not np.array_equal(entry, orig[sid]):
                            viols.append(viol("batch-entry-not-a-sample", f"multi-image {j} block {(k, p)}: a batch entry is not an intact sample of the data set; {keyd}"))
                            break
                        seq.append(sid)
                seqs.append(((j, (k, p)), seq))
        ref_seq = seqs[0][1] if seqs else []
        if len(set(ref_seq)) != len(ref_seq):
            viols.append(viol("batch-repeat-within-epoch", f"a sample index appears twice in one epoch: {ref_seq}; {keyd}"))
        for who, seq in seqs[1:]:
            if seq != ref_seq:
                viols.append(viol("batch-misaligned", f"co-batched block {who} sliced with indices {seq[:10]}.. but {seqs[0][0]} with {ref_seq[:10]}..; {keyd}"))
                break
        if len(ref_seq) != (L // B) * B:
            viols.append(viol("batch-count", f"{len(ref_seq)} samples batched, expected {(L // B) * B}"))
        if rkey is None and ref_seq != list(range((L // B) * B)):
            viols.append(viol("batch-order-without-key", f"rand_key=None but order is {ref_seq[:10]}..; {keyd}"))
    # consumer of the batches: ml.map_plus_loss_in_batches (get_batches -> pmap'ed evaluate -> merge_axes -> concat) must hand
    # back model(x_i, y_i) for exactly the batched samples, each once, input i still paired with target i
    consumed = 0
    if not viols and L <= 40 and L // B >= 1 and case["i"] % 4 == 0:
        try:
            viols += consumer(mis[0], L, B, rkey, D, keyd)
            consumed = 1
        except Exception as e:
            import traceback

            viols.append(viol(f"map-in-batches-exception-{type(e).__name__}", f"{type(e).__name__}: {str(e)[:200]}; {keyd}; {traceback.format_exc()[-300:]}"))
        _mon.take()
    nontrivial = key_kind == "random" and (n_mi >= 2 or any(len(l) >= 2 for l in layouts)) and L // B >= 1
    _counts["map_plus_loss_in_batches"] = _counts.get("map_plus_loss_in_batches", 0) + consumed
    return result(keyd, viols, nontrivial, evals=1 + consumed, obs={"get_batches_returns": 1, "batches_decoded": sum(len(l) for l in out) if not viols else 0, "id_sequences_compared": len(seqs)},
                  hist={"D": D, "ndev": ndev, "key": key_kind, "n_multi_images": n_mi, "divisible": L % B == 0, "permuted": bool(seqs and seqs[0][1] != sorted(seqs[0][1]))}, sample={"key": keyd, "ids": (seqs[0][1][:12] if seqs else [])})


def consumer(x, L, B, rkey, D, keyd):
    import equinox as eqx
    import jax.numpy as jnp
    import ginjax.geometric as geom
    import ginjax.ml as ml

    class Gain(eqx.Module):
        w: object

    y = geom.MultiImage({t: 3 * v + 1 for t, v in x.items()}, D, True)  # target i is a function of input i
    t0 = list(x.keys())[0]

    def map_and_loss(model, xb, yb, aux):
        out = geom.MultiImage({t: xb[t] + yb[t] * model.w for t in xb.keys()}, D, True)
        return jnp.mean(yb[t0] - xb[t0]), aux, out

    def map_and_loss2(model, xb, yb, aux):
        return jnp.mean(yb[t0] - xb[t0]), aux

    model = Gain(jnp.asarray(1.0))
    loss, out = ml.map_plus_loss_in_batches(map_and_loss, model, x, y, B, rkey, None, None)
    loss2 = ml.map_loss_in_batches(map_and_loss2, model, x, y, B, rkey, None, None)
    viols, n = [], (L // B) * B
    seqs = {}
    for t in x.keys():
        if t not in out or np.asarray(out[t]).shape != (n,) + np.asarray(x[t]).shape[1:]:
            return [viol("map-in-batches-shape", f"mapped block {t}: shape {None if t not in out else np.asarray(out[t]).shape}, expected {(n,) + np.asarray(x[t]).shape[1:]}; {keyd}")]
        o, xs = np.asarray(out[t]), np.asarray(x[t])
        seq = []
        for row in o:
            sid = int((row.reshape(-1)[0] - 1) / 4) // 512
            if sid < 0 or sid >= L or not np.array_equal(row, 4 * xs[sid] + 1):
                return [viol("map-in-batches-row-not-model-of-a-sample", f"mapped block {t}: a row is not model(x_i, y_i) of any sample i (input/target pairing or batch reassembly broken); {keyd}")]
            seq.append(sid)
        seqs[t] = seq
    ref = seqs[t0]
    if len(set(ref)) != len(ref):
        viols.append(viol("map-in-batches-repeat", f"a sample was mapped twice: {ref}; {keyd}"))
    if any(sq != ref for sq in seqs.values()):
        viols.append(viol("map-in-batches-misaligned", f"mapped blocks of different types are in different sample orders; {keyd}"))
    if rkey is None and ref != list(range(n)):
        viols.append(viol("map-in-batches-order", f"rand_key=None but the mapped rows are in order {ref[:10]}..; {keyd}"))
    want = float(np.mean([np.mean(2 * np.asarray(x[t0])[i].astype(np.float64) + 1) for i in ref])) if ref else 0.0
    for nm, l_ in (("map_plus_loss_in_batches", loss), ("map_loss_in_batches", loss2)):
        if nm == "map_loss_in_batches" and rkey is not None:
            pass  # same key -> same permutation -> same mean
        if abs(float(l_) - want) > 1e-4 * max(1.0, abs(want)):
            viols.append(viol("map-in-batches-loss", f"{nm} returned {float(l_)}, the mean over the batched samples is {want}; {keyd}"))
    return viols


def finalize(tier, results, obs, hist, metas):
    problems = []
    if not hist.get("permuted", {}).get("True"):
        problems.append("no shuffled epoch observed")
    mon = {}
    for m in metas:
        for k, v in (m.get("monitor") or {}).items():
            mon[k] = mon.get(k, 0) + v
    if not mon.get("get_batches"):
        problems.append("the get_batches probe never fired")
    return {"monitor_counts": mon}, problems


def teardown(ctx):
    return {"monitor": {"get_batches": _mon.checked, **_counts}}
