"""C01 — convolution commutes with B_d and with torus translations.

P-monitor (paired execution): the real geom.convolve is driven on (A, C) and on (g.A, g.C) with the
options transported along the axes by g; `g.` on inputs and on the base output is the NumPy reference
action. Both executions are additionally R-checked by the ConvMonitor. Integer lattice operands
(exact); thorough adds basis x basis runs (complete for the configuration by bilinearity)."""
from __future__ import annotations

import numpy as np

from .. import gen, monitors
from ..ref import action as ract, conv as rconv, group as rgroup
from ..util import err_exact, lattice, result, rng_for, small, viol

ID = "C01"
RULE = (
    "cases = random option sets in the statement's domain (unit stride, symmetric boundary: TORUS/SAME/VALID/int/"
    "symmetric explicit, even-sided filters with explicit padding, rhs and lhs dilation, all torus-flag patterns, "
    "non-square shapes), image (k,p) and filter (k',p'); for every g in B_d (all 8 for d=2; all 48 or a 12-element "
    "subset containing every conjugacy class for d=3) conv(g.A, g.C; g-transported options) is compared with "
    "g.conv(A,C) under type (k+k', p+p'); translations on torus axes; object-level covariance through "
    "GeometricImage.convolve_with incl. declared parity. Non-trivial: g != e and base output not identically zero; "
    "distinct by option set."
)
RULE += " Near-domain stratum (every 9th case): filters with even and odd sides + string padding, which the library refuses - a tree that accepts them must still be covariant (reject-or-commute). Also: realistic image sizes, filter reach beyond the extent on toroidal axes, per-axis dilation tuples, TORUS with image dilation."
ASSUMPTIONS = [
    "reference action and reference convolution (self-tested)",
    "explicit padding pairs travel with their axis (lo/hi swap under an axis flip); only symmetric pairs are generated",
]
ANCHORS = [
    "ginjax.geometric.functional_geometric_image:convolve",
    "ginjax.geometric.functional_geometric_image:convolve_ravel",
    "ginjax.geometric.functional_geometric_image:get_torus_expanded",
    "ginjax.geometric.functional_geometric_image:get_same_padding",
    "ginjax.geometric.functional_geometric_image:pre_tensor_product_expand",
    "ginjax.geometric.geometric_image:GeometricImage.convolve_with",
]
MIN_NONTRIVIAL = {"quick": 80, "thorough": 1600}
WORKERS = {"quick": 8, "thorough": 16}
TIMEOUT = {"quick": 900, "thorough": 7200}


def cases(tier, seed):
    n = 160 if tier == "quick" else 4800
    out = [{"D": 2 if (i % 5) else 3, "mode": "lattice"} for i in range(n)]
    if tier == "thorough":
        out += [{"D": 2 if (i % 4) else 3, "mode": "basis"} for i in range(400)]
    else:
        out += [{"D": 2, "mode": "basis"} for i in range(8)]
    return out


_mon = None
_reps = {}


def setup(ctx):
    global _mon
    import ginjax.geometric  # noqa: F401

    st = {}
    st.update(ract.selftest())
    st.update(rconv.selftest())
    _mon = monitors.ConvMonitor(max_elems=400_000_000).install()
    return st


def group_sample(tier, D, rng):
    G = rgroup.hyperoctahedral(D)
    if D == 2 or tier == "thorough":
        return G
    if D not in _reps:
        _reps[D] = rgroup.conjugacy_class_reps(D)
    reps = list(_reps[D])
    # a 3-cycle based element with signs and two random ones
    extra = [G[int(i)] for i in rng.choice(len(G), size=2, replace=False)]
    return reps + extra


def transported(g, D, is_torus, padding, lhs, rhs):
    t = is_torus if isinstance(is_torus, bool) else rgroup.transport(g, is_torus)
    pad = padding if not isinstance(padding, tuple) else rgroup.transport_padding(g, padding)
    l = None if lhs is None else rgroup.transport(g, lhs)
    r = rhs if isinstance(rhs, int) else rgroup.transport(g, rhs)
    return t, pad, l, r


def run(case, ctx):
    import contextlib
    import io

    import jax.numpy as jnp
    import ginjax.geometric as geom

    rng = rng_for(ctx["seed"], ID, case["i"])
    D = case["D"]
    basis = case["mode"] == "basis"
    cfg = gen.conv_config(rng, D, equivariance=True, max_k_sum=(2 if basis else None))
    if basis:
        # keep the basis small: shrink shapes
        cfg["sp"] = [min(v, 3) for v in cfg["sp"]] if D == 2 else [min(v, 2) for v in cfg["sp"]]
        cfg["fsp"] = [min(v, 3) for v in cfg["fsp"]] if D == 2 else [min(v, 2) for v in cfg["fsp"]]
        if any(m % 2 == 0 for m in cfg["fsp"]) and (cfg["padding"] is None or isinstance(cfg["padding"], str) and cfg["padding"] != "VALID"):
            cfg["padding"] = [[1, 1]] * D
            cfg["pad_kind"] = "explicit"
    if not basis and case["i"] % 20 == 19:
        cfg["sp"] = [int(v) for v in (rng.integers(24, 41, size=2) if D == 2 else rng.integers(8, 12, size=3))]  # realistic sizes
        cfg["Cin"], cfg["Cout"], cfg["k"], cfg["k2"] = int(rng.integers(4, 17)), int(rng.integers(4, 9)), int(rng.integers(0, 2)), int(rng.integers(0, 2))
    # near-domain stratum (reject-or-commute): a filter with even AND odd sides together with a string/default padding is
    # refused by the library (even sides need literal padding). If a tree accepts such a call it claims a result, and the result
    # must then be covariant like any other; a refusal is counted and is fine. The value is not compared with the definition
    # here (the statement does not say where the extra pixel of an even side goes), only the relation between the executions.
    near = (not basis) and case["i"] % 9 == 4
    if near:
        fs = [int(rng.choice([1, 3])) for _ in range(D)]
        fs[int(rng.integers(D))] = int(rng.choice([2, 2, 4]))
        cfg["fsp"], cfg["filter_kind"] = fs, "even+odd (near-domain)"
        cfg["padding"] = [None, "SAME", "TORUS"][int(rng.integers(3))]
        cfg["pad_kind"] = "None" if cfg["padding"] is None else cfg["padding"]
        cfg["lhs"] = None
    is_torus, stride, padding, lhs, rhs = gen.conv_args(cfg)
    sp, fsp, k, k2 = tuple(cfg["sp"]), tuple(cfg["fsp"]), cfg["k"], cfg["k2"]
    try:
        if near:
            pass
        elif min(rconv.out_extents(sp, fsp, is_torus, 1, padding, lhs, rhs)) < 1:
            return {"status": "skipped", "key": "empty-output", "nontrivial": False}
    except ValueError:
        return {"status": "skipped", "key": "empty-output", "nontrivial": False}
    p, p2 = int(rng.integers(0, 2)), int(rng.integers(0, 2))
    if basis:
        nb = int(np.prod(sp)) * D**k
        nf = int(np.prod(fsp)) * D**k2
        if nb > 64 or nf > 64:
            k, k2 = min(k, 1), 0
            nb = int(np.prod(sp)) * D**k
            nf = int(np.prod(fsp)) * D**k2
        A = np.eye(nb, dtype=np.float32).reshape((nb, 1) + sp + (D,) * k)
        F = np.eye(nf, dtype=np.float32).reshape((nf, 1) + fsp + (D,) * k2)
    else:
        B, Cin, Cout = cfg["B"], cfg["Cin"], cfg["Cout"]
        A = lattice(rng, (B, Cin) + sp + (D,) * k)
        F = lattice(rng, (Cout, Cin) + fsp + (D,) * k2, -2, 2)
    key = {kk: cfg[kk] for kk in ("D", "sp", "fsp", "is_torus", "padding", "lhs", "rhs")}
    key.update(k=k, k2=k2, p=p, p2=p2, mode=case["mode"])
    viols, evals = [], 0
    sink = io.StringIO()
    _mon.take()
    try:
        with contextlib.redirect_stdout(sink):
            base = np.asarray(geom.convolve(D, jnp.asarray(A), jnp.asarray(F), is_torus, 1, padding, lhs, rhs))
        evals += 1
    except Exception as e:
        if near:
            _mon.take()
            return result(key, [], False, evals=0, obs={"near_domain_refused": 1}, hist=hist_of(cfg, case))
        return result(key, [viol(f"convolve-exception-{type(e).__name__}", f"convolve raised {e} on {key}", cfg=cfg)], True, hist=hist_of(cfg, case))
    if near:
        _mon.take()  # value against the definition is not judged in the near-domain stratum
    G = group_sample(ctx["tier"], D, rng)
    n_g = 0
    for g in G:
        gA = ract.act(D, A, k, p, g, 2).astype(np.float32)
        gF = ract.act(D, F, k2, p2, g, 2).astype(np.float32)
        t, pad, l, r = transported(g, D, is_torus, padding, lhs, rhs)
        try:
            with contextlib.redirect_stdout(sink):
                got = np.asarray(geom.convolve(D, jnp.asarray(gA), jnp.asarray(gF), t, 1, pad, l, r))
            evals += 1
        except Exception as e:
            viols.append(viol(f"convolve-exception-{type(e).__name__}", f"convolve raised on transformed operands: {e}; {key} g={g.tolist()}", cfg=cfg, g=g.tolist()))
            break
        want = ract.act(D, base, k + k2, (p + p2) % 2, g, 2)
        n_g += 1
        e = err_exact(got, want)
        if e > 1e-4:
            viols.append(viol("conv-not-equivariant", f"conv(g.A,g.C) != g.conv(A,C): {key} g={g.tolist()} err={e:.3g}", cfg=cfg, g=g.tolist(), k=k, k2=k2, p=p, p2=p2, got=small(got), want=small(want)))
            break
    # translations on torus axes
    tor_t = is_torus if isinstance(is_torus, tuple) else (is_torus,) * D
    if any(tor_t) and lhs is None and (padding is None or padding == "TORUS"):
        for _ in range(3):
            shift = tuple(int(rng.integers(0, n)) if t else 0 for n, t in zip(sp, tor_t))
            sA = np.roll(A, shift, axis=tuple(range(2, 2 + D)))
            with contextlib.redirect_stdout(sink):
                got = np.asarray(geom.convolve(D, jnp.asarray(sA), jnp.asarray(F), is_torus, 1, padding, lhs, rhs))
            evals += 1
            want = np.roll(base, shift, axis=tuple(range(2, 2 + D)))
            if err_exact(got, want) > 1e-4:
                viols.append(viol("conv-not-translation-equivariant", f"conv(shift.A,C) != shift.conv(A,C): {key} shift={shift}", cfg=cfg, shift=list(shift)))
                break
    viols += [] if near else _mon.take()
    if near:
        _mon.take()
    # object-level covariance (lattice mode): flags travel with the image, declared parity p+p'
    if not basis and not viols:
        try:
            with contextlib.redirect_stdout(sink):
                img = geom.GeometricImage(jnp.asarray(A[0, 0]), p, D, tor_t)
                fil = geom.GeometricImage(jnp.asarray(F[0, 0]), p2, D, tor_t)
                res0 = img.convolve_with(fil, 1, padding, lhs, rhs)
            evals += 1
            if res0.k != k + k2 or res0.parity != (p + p2) % 2:
                viols.append(viol("convolve_with-declared-type", f"convolve_with declares (k={res0.k}, parity={res0.parity}), expected ({k + k2},{(p + p2) % 2}): {key}", cfg=cfg))
            for g in [G[int(i)] for i in rng.choice(len(G), size=min(4, len(G)), replace=False)]:
                t, pad, l, r = transported(g, D, tor_t, padding, lhs, rhs)
                with contextlib.redirect_stdout(sink):
                    gi, gf = img.times_group_element(g), fil.times_group_element(g)
                    res = gi.convolve_with(gf, 1, pad, l, r)
                evals += 1
                want = ract.act(D, np.asarray(res0.data), res0.k, res0.parity, g)
                if err_exact(res.data, want) > 1e-4:
                    viols.append(viol("object-level-conv-not-covariant", f"(g.A)*(g.C) != g.(A*C) at object level (flags {tor_t} -> {gi.is_torus}): {key} g={g.tolist()}", cfg=cfg, g=g.tolist()))
                    break
                if tuple(res.is_torus) != rgroup.transport(g, tor_t):
                    viols.append(viol("object-level-flags", f"result flags {res.is_torus} != transported {rgroup.transport(g, tor_t)}", cfg=cfg, g=g.tolist()))
                    break
        except Exception as e:
            viols.append(viol(f"convolve_with-exception-{type(e).__name__}", f"{type(e).__name__}: {str(e)[:300]} on {key}", cfg=cfg))
    nontrivial = bool(np.any(base != 0)) and n_g > 1
    return result(key, viols, nontrivial, evals=evals, obs={"paired_executions": n_g, "basis_complete_configs": int(basis), "near_domain_accepted": int(near)}, hist=hist_of(cfg, case, k, k2), sample={"cfg": cfg, "k": k, "k2": k2, "p": p, "p2": p2, "n_g": n_g})


def hist_of(cfg, case, k=None, k2=None):
    return {
        "D": cfg["D"], "mode": case["mode"], "pad_kind": cfg["pad_kind"] + ("+lhs" if cfg["lhs"] is not None else ""),
        "filter_kind": cfg["filter_kind"], "torus_kind": cfg["torus_kind"], "rhs": "1" if cfg["rhs"] == 1 else "dilated",
        "shape": "square" if len(set(cfg["sp"])) == 1 else "non-square", "k,k2": f"{k},{k2}",
    }


def finalize(tier, results, obs, hist, metas):
    problems = []
    if obs.get("paired_executions", 0) < 200:
        problems.append("fewer than 200 paired executions observed")
    return {}, problems
