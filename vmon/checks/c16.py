"""C16 — autoregressive rollout feeds each prediction back correctly.

H-monitor: the model itself is the probe. A harness model records every input it receives and answers
with frames of fresh unique ids (type, channel, step); the sequence of recorded inputs and the returned
rollout are compared with a sliding-window reference over the ids. Second family: random non-symmetric
linear maps of the window compared with n explicit applications. Recorder on ml.autoregressive_step too. Variants: state
carried in aux_data, NumPy-backed input, int32 history with non-integer answers (ids compared exactly), jit rollout."""
from __future__ import annotations

import numpy as np

from .. import probes
from ..util import err_exact, result, rng_for, small, viol

ID = "C16"
RULE = (
    "cases = (n steps 1..6, past 1..4, D, signature: dynamic types with several channels, constant fields on dynamic "
    "types, constant-only types, key order with constants before/after dynamic types) x model family (id-emitting "
    "recorder, linear window map); every model input and the returned rollout are compared with the sliding-window "
    "reference. Non-trivial: n>=2 and past>=2 or constants present; distinct by configuration."
)
RULE += " Also: long rollouts (n up to 24, past up to 9), state carried in aux_data, NumPy-backed input, int32 history with non-integer answers (ids compared exactly), jit rollout."
ASSUMPTIONS = ["sliding-window reference written from the statement (per channel: drop oldest, append prediction; constants in place; input key order kept)"]
ANCHORS = ["ginjax.ml.training:autoregressive_step", "ginjax.ml.training:autoregressive_map", "ginjax.geometric.multi_image:MultiImage.concat_inverse", "ginjax.geometric.multi_image:MultiImage.expand"]
MIN_NONTRIVIAL = {"quick": 60, "thorough": 3000}
WORKERS = {"quick": 6, "thorough": 16}
TIMEOUT = {"quick": 900, "thorough": 3600}
TCODE = {(0, 0): 1, (0, 1): 2, (1, 0): 3, (1, 1): 4, (2, 0): 5}


def cases(tier, seed):
    n = 150 if tier == "quick" else 8000
    return [{"n": i, "family": "ids" if i % 3 else "linear"} for i in range(n)]


_step_calls = [0]


def setup(ctx):
    import ginjax.ml.training as tr

    log = probes.EventLog()
    log.enabled = False

    def on(ev):
        _step_calls[0] += 1

    probes.install_function(tr, "autoregressive_step", "ml.autoregressive_step", log, on)
    return {}


def frame(D, sp, k, fid):
    npix, ncomp = int(np.prod(sp)), D**k
    return ((fid * 32 + np.arange(npix)[:, None]) * 9 + np.arange(ncomp)[None, :]).reshape(sp + (D,) * k).astype(np.float32)


def gen_sig(rng, D):
    types = [(0, 0), (0, 1), (1, 0), (1, 1), (2, 0)] if D > 1 else [(0, 0), (0, 1)]
    nt = int(rng.integers(1, 4))
    chosen = [types[i] for i in rng.choice(len(types), size=min(nt, len(types)), replace=False)]
    sig = []
    for t in chosen:
        kind = ["dyn", "dyn", "dyn+const", "const"][int(rng.integers(4))]
        c_dyn = int(rng.integers(1, 4)) if kind != "const" else 0
        c_const = int(rng.integers(1, 3)) if kind != "dyn" else 0
        sig.append((t, c_dyn, c_const))
    if all(c == 0 for _, c, _ in sig):
        t, _, cc = sig[0]
        sig[0] = (t, 1, cc)
    return sig


def run(case, ctx):
    import jax.numpy as jnp
    import ginjax.geometric as geom
    import ginjax.ml as ml

    rng = rng_for(ctx["seed"], ID, case["i"])
    D = int(rng.choice([1, 2, 2, 3]))
    sp = tuple(int(v) for v in rng.integers(1, 4, size=D))
    n_steps, past = int(rng.integers(1, 7)), int(rng.integers(1, 5))
    if case["i"] % 12 == 11:
        n_steps, past = int(rng.integers(12, 25)), int(rng.integers(6, 10))  # long rollouts
    sig = gen_sig(rng, D)
    torus = tuple(bool(v) for v in rng.integers(0, 2, size=D))
    const_dict = {t: cc for t, _, cc in sig if cc > 0}
    # the forms in which a caller states the same constant layout: sparse dict, dict with an explicit 0 for every type without
    # constants (what a signature-derived map looks like), the Signature tuple form (sparse / with zeros)
    const_form = ["sparse-dict", "dict-with-zeros", "signature-tuple", "signature-tuple-with-zeros"][case["i"] % 4]
    full = {t: cc for t, _, cc in sig}
    const_arg = {"sparse-dict": const_dict, "dict-with-zeros": full, "signature-tuple": tuple(const_dict.items()), "signature-tuple-with-zeros": tuple(full.items())}[const_form]
    # window state: per type, per channel, list of past frames; constants per type
    win = {t: [[frame(D, sp, t[0], (TCODE[t] * 4 + c) * 50 + j) for j in range(past)] for c in range(cd)] for t, cd, _ in sig if cd > 0}
    consts = {t: [frame(D, sp, t[0], 9000 + TCODE[t] * 10 + c) for c in range(cc)] for t, _, cc in sig if cc > 0}
    order = [t for t, _, _ in sig]

    def assemble(win):
        blocks = {}
        for t in order:
            parts = []
            if t in win:
                for ch in win[t]:
                    parts += ch
            if t in consts:
                parts += consts[t]
            blocks[t] = np.stack(parts)
        return blocks

    x0 = assemble(win)
    # one case in five: NumPy-backed input; one in five (id family): the stored history is int32 (raw integer data) while the
    # model answers with non-integer float32 values - what is fed back must be the prediction itself, not a cast of it
    narrow = case["i"] % 5 == 3 and case["family"] == "ids"
    off = np.float32(0.5 if narrow else 0.0)
    x = geom.MultiImage({t: (jnp.asarray(v.astype(np.int32)) if narrow else (np.asarray(v) if case["i"] % 5 == 2 else jnp.asarray(v))) for t, v in x0.items()}, D, torus)
    key = {"D": D, "sp": sp, "n": n_steps, "past": past, "sig": sig, "family": case["family"], "const_form": const_form}
    viols = []
    seen_inputs = []
    W = {t: rng.integers(-2, 3, size=(cd, cd * past + (const_dict.get(t, 0)))).astype(np.float32) for t, cd, _ in sig if cd > 0}

    aux_seen = []

    def model(xin, aux=None):
        # the carried state of a stateful model: every call must receive the state the previous call returned
        aux_seen.append(None if aux is None else int(aux["calls"]))
        if aux is not None:
            aux = {"calls": aux["calls"] + 1}
        step = len(seen_inputs)
        seen_inputs.append((list(xin.keys()), {t: np.asarray(v) for t, v in xin.data.items()}, xin.D, tuple(xin.is_torus)))
        out = {}
        for t, cd, _ in sig:
            if cd == 0:
                continue
            if case["family"] == "ids":
                out[t] = jnp.asarray(np.stack([frame(D, sp, t[0], 20000 + (TCODE[t] * 4 + c) * 50 + step) + off for c in range(cd)]))
            else:
                out[t] = jnp.einsum("oc,c...->o...", jnp.asarray(W[t]), xin[t])
        return geom.MultiImage(out, D, torus), aux

    steps_before = _step_calls[0]
    try:
        use_state = case["i"] % 2 == 0
        got, aux_out = ml.autoregressive_map(model, x, {"calls": 0} if use_state else None, past, n_steps, const_arg)
        if use_state:
            if aux_seen != list(range(n_steps)):
                viols.append(viol("rollout-state-not-threaded", f"the state handed to the model at its successive calls was {aux_seen}, n explicit applications chain it as {list(range(n_steps))}; {key}"))
            elif aux_out is None or int(aux_out["calls"]) != n_steps:
                viols.append(viol("rollout-state-not-threaded", f"returned state {aux_out}, expected calls={n_steps}; {key}"))
        elif aux_out is not None:
            viols.append(viol("rollout-state-not-threaded", f"aux_data None went in, {aux_out} came out"))
    except Exception as e:
        import traceback

        return result(key, [viol(f"rollout-exception-{type(e).__name__}", f"{type(e).__name__}: {str(e)[:200]}; {key}; {traceback.format_exc()[-300:]}")], True, hist={"D": D, "family": case["family"]})
    # reference rollout
    preds = []
    cur = {t: [list(ch) for ch in chs] for t, chs in win.items()}
    for step in range(n_steps):
        exp_in = assemble(cur)
        if step >= len(seen_inputs):
            viols.append(viol("rollout-model-calls", f"model called {len(seen_inputs)} times, expected {n_steps}"))
            break
        keys, blocks, d_, tor_ = seen_inputs[step]
        if keys != order:
            viols.append(viol("rollout-input-type-order", f"step {step}: model input types {keys}, the input's own order is {order}"))
            break
        bad = False
        for t in order:
            # unique-id payloads are compared exactly (a relative tolerance would hide a change of 0.5 in an id of 6e6)
            if blocks[t].shape != exp_in[t].shape or (not np.array_equal(blocks[t], exp_in[t]) if case["family"] == "ids" else err_exact(blocks[t], exp_in[t]) > 1e-5):
                slot = ""
                if blocks[t].shape == exp_in[t].shape:
                    ch = int(np.argwhere(np.abs(blocks[t] - exp_in[t]).reshape(len(exp_in[t]), -1).max(1) > 0)[0][0])
                    slot = f" first wrong channel slot {ch}: got {small(blocks[t][ch], 2)} expected {small(exp_in[t][ch], 2)}"
                viols.append(viol("rollout-window-wrong", f"step {step}: model input block {t} is not the sliding window of the statement (shape {blocks[t].shape} vs {exp_in[t].shape}).{slot}; {key}"))
                bad = True
                break
        if bad:
            break
        if d_ != D or tor_ != torus:
            viols.append(viol("rollout-metadata", f"step {step}: D/is_torus changed"))
        # prediction of this step
        if case["family"] == "ids":
            pred = {t: [frame(D, sp, t[0], 20000 + (TCODE[t] * 4 + c) * 50 + step) + off for c in range(cd)] for t, cd, _ in sig if cd > 0}
        else:
            pred = {t: list(np.einsum("oc,c...->o...", W[t].astype(np.float64), exp_in[t].astype(np.float64)).astype(np.float32)) for t, cd, _ in sig if cd > 0}
        preds.append(pred)
        for t in cur:
            for c in range(len(cur[t])):
                cur[t][c] = cur[t][c][1:] + [pred[t][c]]
    if not viols:
        if len(seen_inputs) != n_steps:
            viols.append(viol("rollout-model-calls", f"model called {len(seen_inputs)} times, expected {n_steps}"))
        exp_types = [t for t, cd, _ in sig if cd > 0]
        if set(got.keys()) != set(exp_types):
            viols.append(viol("rollout-output-types", f"rollout returns types {list(got.keys())}, expected {exp_types}"))
        else:
            for t in exp_types:
                cd = len(preds[0][t])
                want = np.stack([preds[s][t][c] for c in range(cd) for s in range(n_steps)])
                g = np.asarray(got[t])
                tol = 1e-5 if case["family"] == "ids" else 1e-4
                if g.shape != want.shape or (not np.array_equal(g, want) if case["family"] == "ids" else err_exact(g, want) > tol):
                    viols.append(viol("rollout-output-order", f"returned block {t} is not the n one-step predictions in time order per channel (shape {g.shape} vs {want.shape}); {key}", got=small(g), want=small(want)))
                    break
    # the same rollout traced under jit (linear family: a pure jax model); must agree with the eager rollout by type
    if not viols and case["family"] == "linear":
        import jax

        def pure_model(xin, aux=None):
            return geom.MultiImage({t: jnp.einsum("oc,c...->o...", jnp.asarray(W[t]), xin[t]) for t, cd, _ in sig if cd > 0}, D, torus), aux

        try:
            gj = jax.jit(lambda z: ml.autoregressive_map(pure_model, z, None, past, n_steps, const_arg)[0])(x)
            for t in got.keys():
                if t not in gj or np.asarray(gj[t]).shape != np.asarray(got[t]).shape or err_exact(gj[t], got[t]) > 1e-4:
                    viols.append(viol("rollout-under-jit", f"jit(autoregressive_map) differs from the eager rollout for block {t}; {key}"))
                    break
        except Exception as e:
            viols.append(viol(f"rollout-exception-{type(e).__name__}", f"jit rollout raised {type(e).__name__}: {str(e)[:200]}; {key}"))
    nontrivial = (n_steps >= 2 and past >= 2) or bool(const_dict)
    return result(key, viols, nontrivial, evals=len(seen_inputs) + 1, obs={"model_inputs_checked": len(seen_inputs), "autoregressive_step_calls": _step_calls[0] - steps_before},
                  hist={"D": D, "family": case["family"], "history_dtype": "int32" if narrow else "float32", "n": n_steps, "past": past, "const_form": const_form, "const_types": len(const_dict), "const_only_types": sum(1 for _, cd, cc in sig if cd == 0 and cc > 0), "ntypes": len(sig)}, sample={"key": key})


def finalize(tier, results, obs, hist, metas):
    problems = []
    if obs.get("autoregressive_step_calls", 0) == 0:
        problems.append("the autoregressive_step probe never fired")
    if not hist.get("const_only_types", {}).keys() - {"0"}:
        problems.append("no constant-only type was generated")
    return {}, problems
