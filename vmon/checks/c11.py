"""C11 — the linear layer computes its defining sum and returns the requested types.

R-monitor: class-level recorder on ml.ConvContract.__call__; for every concrete call the layer's own
weights, biases, bank and static options are read from the instance and the output is compared with an
independent NumPy evaluation of the defining sum + the bias rule of the statement; the emitted type set
must be exactly the reachable target types with the requested channel counts and the size-formula shape."""
from __future__ import annotations

import os

import numpy as np

from .. import mlgen, probes
from ..ref import conv as rconv, layer as rlayer
from ..util import defect, result, rng_for, small, viol

ID = "C11"
RULE = (
    "cases = random ConvContract configurations: input/target signatures = random subsets of {(k,p): k<=2 (d=2) / k<=1 (d=3)} "
    "with distinct channel counts in any key order, banks from the harness (M in {2,3,5}; sometimes one filter type removed so "
    "that a target is unreachable), five bias settings, padding None/TORUS/SAME/VALID/explicit, stride 1..2, rhs/lhs dilation, "
    "torus flags, d in {2,3}; weights and biases perturbed away from initialisation (integer weights for the bias-free part). "
    "Non-trivial: >=2 input types contribute to some target type; distinct by configuration."
)
RULE += " Strata of the layer generator: high tensor orders through the single-pixel bank (d=3, (2,0),(3,1) -> (3,1),(2,0): filter orders 4 and 5), hand-merged banks with 3x3 and 5x5 filter types. Also: equal-channel and wide layers, single-pixel banks, long-reach dilation, whole models as workload, missing_filter flag; flags x padding by a covering schedule."
ASSUMPTIONS = ["reference layer vmon/ref/layer.py = ref.conv + Kronecker contraction + bias rule of the statement", "tolerance 1e-4 of the trace scale (float32 accumulation)"]
ANCHORS = ["ginjax.ml.layers:ConvContract.__init__", "ginjax.ml.layers:ConvContract.individual_convolve", "ginjax.ml.layers:ConvContract.__call__", "ginjax.geometric.functional_geometric_image:convolve_contract"]
MIN_NONTRIVIAL = {"quick": 30, "thorough": 500}
WORKERS = {"quick": 8, "thorough": 16}
TIMEOUT = {"quick": 1200, "thorough": 7200}


def cases(tier, seed):
    n = 96 if tier == "quick" else 2000
    out = [{"D": 2 if i % 4 else 3} for i in range(n)]
    # whole architectures as a workload: every ConvContract call inside a real model run (U-Net upsampling with M=2
    # filters and image dilation, dilated ResNet convolutions, mixed bias modes) is checked by the same R-monitor
    out += [{"D": 2 if i % 5 else 3, "kind": "model"} for i in range(4 if tier == "quick" else 60)]
    return out


class LayerMonitor:
    def __init__(self, tol=1e-4):
        self.viol = []
        self.checked = 0
        self.tol = tol
        self.log = probes.EventLog()
        self.log.enabled = False
        self.last_contrib = 0

    def install(self):
        import ginjax.ml.layers as L

        probes.wrap_method(L.ConvContract, "__call__", "ConvContract.__call__", self.log, self._on)
        return self

    def _on(self, ev):
        self.check(ev["obj"], ev["args"][0] if ev["args"] else ev["kwargs"]["x"], ev["out"])

    def check(self, layer, x, out):
        self.checked += 1
        D = layer.D
        X = probes.blocks(x)
        bank = probes.blocks(layer.invariant_filters)
        W = {a: {b: np.asarray(w) for b, w in d.items()} for a, d in layer.weights.items()}
        Bv = {t: np.asarray(b) for t, b in layer.bias.items()}
        target = tuple(layer.target_keys)
        cfg = dict(D=D, in_types={str(t): list(v.shape) for t, v in X.items()}, target=str(target), bank=sorted(str(t) for t in bank), use_bias=layer.use_bias, padding=layer.padding, stride=layer.stride, lhs=layer.lhs_dilation, rhs=layer.rhs_dilation, is_torus=list(x.is_torus))
        # every (input type, target type) pair whose filter type is in the bank belongs to the defining sum: the layer
        # must own a weight block for it
        for s_ in X:
            for t_, _c in target:
                if (s_[0] + t_[0], (s_[1] + t_[1]) % 2) in bank and (s_ not in W or tuple(t_) not in W[s_]):
                    self.viol.append(viol("layer-missing-contribution", f"ConvContract has no weight block for {s_} -> {tuple(t_)} although the bank holds the filter type {(s_[0] + t_[0], (s_[1] + t_[1]) % 2)}: that term of the defining sum is silently absent; {cfg}", **cfg))
                    return
        # the layer's own record of whether some (input, target) pair lacks a filter
        lacks = any((s_[0] + t_[0], (s_[1] + t_[1]) % 2) not in bank for s_, _ci in layer.input_keys for t_, _c in target)
        if bool(layer.missing_filter) != lacks:
            self.viol.append(viol("layer-missing-filter-flag", f"ConvContract.missing_filter is {layer.missing_filter} but {'some' if lacks else 'no'} (input, target) pair lacks its filter type in the bank; {cfg}", **cfg))
            return
        try:
            want = rlayer.layer(X, W, Bv, bank, target, layer.use_bias, D, tuple(x.is_torus), layer.stride, layer.padding, layer.lhs_dilation, layer.rhs_dilation)
        except ValueError:
            return
        self.last_contrib = max([sum(1 for s in X if (s[0] + t[0], (s[1] + t[1]) % 2) in bank) for t in want] or [0])
        got = probes.blocks(out)
        if set(got) != set(want):
            missing = sorted(set(want) - set(got))
            mode = layer.use_bias
            if missing and not (set(got) - set(want)):
                if mode is True:
                    mech = "D5-bias-true-drops-all-blocks"
                elif mode == "scalar" and all(t != (0, 0) for t in missing):
                    mech = "D5-bias-scalar-drops-nonscalar-blocks"
                else:
                    mech = "layer-drops-reachable-block"
            else:
                mech = "layer-emits-unrequested-type"
            self.viol.append(viol(mech, f"ConvContract(use_bias={mode!r}) returned types {sorted(got)}, reachable requested types are {sorted(want)} (missing {missing}); {cfg}", **cfg))
            return
        S = max([float(np.max(np.abs(v))) for v in list(X.values()) + list(want.values()) if v.size] + [0.0])
        # conditioning of the defining sum: A = the same sum over the magnitudes of all operands (an upper bound of the sum of
        # |terms| behind every output entry). The float32 rounding noise of the real layer is a few eps32 * A whatever the value
        # of the sum; with wide layers whose terms cancel structurally (64 channels, filter taps aliasing onto one pixel of a
        # small torus) it exceeds 1e-2*S*tol. The denominator floor is therefore max(1e-2*S, 2e-2*A): a single wrong term is
        # still ~A/n, i.e. a defect of 50/n, far above the tolerance for every fan-in n that can occur.
        try:
            absum = rlayer.layer({t: np.abs(v) for t, v in X.items()}, {a: {b: np.abs(w) for b, w in d.items()} for a, d in W.items()}, {t: np.abs(b) for t, b in Bv.items()},
                                 {t: np.abs(v) for t, v in bank.items()}, target, layer.use_bias, D, tuple(x.is_torus), layer.stride, layer.padding, layer.lhs_dilation, layer.rhs_dilation)
            A = max([float(np.max(v)) for v in absum.values() if v.size] + [0.0])
        except ValueError:
            A = 0.0
        if not os.environ.get('VMON_NO_ABSFLOOR'):
            S = max(S, 2.0 * A)
        for t, w in want.items():
            g = got[t]
            c_req = dict(target)[t]
            if g.shape != w.shape or g.shape[0] != c_req:
                self.viol.append(viol("layer-shape", f"block {t} has shape {g.shape}; requested channels {c_req}, size formula gives {w.shape}; {cfg}", **cfg))
                return
            d = defect(g, w, S)
            if d > self.tol:
                self.viol.append(viol("layer-value", f"block {t} differs from the defining sum + bias rule: defect {d:.3g}; {cfg}", **cfg, got=small(g), want=small(w)))
                return
        if out.D != D or tuple(out.is_torus) != tuple(x.is_torus):
            self.viol.append(viol("layer-metadata", f"D/is_torus changed; {cfg}", **cfg))

    def take(self):
        v, self.viol = self.viol, []
        return v


_mon = None


def setup(ctx):
    global _mon
    import ginjax.ml  # noqa: F401

    _mon = LayerMonitor().install()
    return rconv.selftest()


def integerise(layer, rng):
    """Replace the weights by small integers (the bias-free part is then exact in float32)."""
    import jax
    import jax.numpy as jnp
    import equinox as eqx

    def f(path, leaf):
        names = [getattr(p, "name", None) for p in path]
        if eqx.is_inexact_array(leaf) and "weights" in names:
            return jnp.asarray(rng.integers(-2, 3, size=leaf.shape).astype(np.float32))
        return leaf

    return jax.tree_util.tree_map_with_path(f, layer)


def run(case, ctx):
    import contextlib
    import io

    rng = rng_for(ctx["seed"], ID, case["i"])
    D = case["D"]
    if case.get("kind") == "model":
        return run_model(case, ctx, rng)
    cfg = mlgen.gen_layer_cfg(rng, D, allow_stride=True, equal_channels=(case["i"] % 3 == 1), stratum=case["i"])
    key = {k: cfg[k] for k in ("D", "M", "in_sig", "out_sig", "drop", "bias", "padding", "lhs", "rhs", "stride", "torus", "sp")}
    key["mixed_M"], key["high_order"] = cfg.get("mixed_M"), bool(cfg.get("high_order"))
    viols, evals = [], 0
    _mon.take()
    sink = io.StringIO()
    contrib = 0
    try:
        with contextlib.redirect_stdout(sink):
            bank = mlgen.build_bank(cfg)
            layer = mlgen.build_layer(cfg, bank, case["i"])
            variants = [("perturbed", mlgen.perturb(layer, rng, 0.5)), ("integer-weights", integerise(mlgen.perturb(layer, rng, 0.5), rng))]
            for name, lyr in variants:
                kind = "lattice" if name == "integer-weights" else "normal"
                x = mlgen.random_multi(rng, mlgen.sig_of(cfg["in_sig"]), D, tuple(cfg["sp"]), tuple(cfg["torus"]), kind=kind)
                lyr(x)
                evals += 1
                contrib = max(contrib, _mon.last_contrib)
    except Exception as e:
        import traceback

        viols.append(viol(f"layer-exception-{type(e).__name__}", f"{type(e).__name__}: {str(e)[:300]}; {key}; {traceback.format_exc()[-400:]}"))
    viols += _mon.take()
    return result(key, viols[:3], contrib >= 2, evals=evals, obs={"layer_calls_checked": evals},
                  hist={"D": D, "M": ("mixed" if cfg.get("mixed_M") else ("1-high-order" if cfg.get("high_order") else cfg["M"])), "bias": str(cfg["bias"]), "pad_kind": cfg["pad_kind"] + ("+lhs" if cfg["lhs"] else ""), "torus_kind": cfg["torus_kind"], "partial_bank": cfg["drop"] is not None, "stride": str(cfg["stride"] == 1), "channels": "equal" if case["i"] % 3 == 1 else "distinct"},
                  sample={"cfg": key})


def run_model(case, ctx, rng):
    import contextlib
    import io

    D = case["D"]
    cfg = mlgen.gen_model_cfg(rng, D, stable_only=False)
    key = {k: cfg[k] for k in ("cls", "D", "in_sig", "out_sig", "depth", "num_blocks", "num_conv", "num_downsamples", "activation", "norm", "bias", "torus", "N")}
    viols = []
    _mon.take()
    before = _mon.checked
    try:
        with contextlib.redirect_stdout(io.StringIO()):
            stable, _, notes = mlgen.type_flow(cfg)
            model = mlgen.perturb(mlgen.build_model(cfg, case["i"]), rng, 0.3)
            x = mlgen.random_multi(rng, mlgen.sig_of(cfg["in_sig"]), D, tuple(cfg["N"]), tuple(cfg["torus"]))
            model(x)
    except Exception as e:
        if not any("U-Net skip concat" in n for n in notes):
            viols.append(viol(f"model-exception-{type(e).__name__}", f"{type(e).__name__}: {str(e)[:200]}; {key}"))
    viols += _mon.take()
    n = _mon.checked - before
    return result({"kind": "model", **key}, viols[:3], n >= 2, evals=n, obs={"layer_calls_checked": n, "layer_calls_inside_models": n},
                  hist={"D": D, "M": "model:" + cfg["cls"], "bias": str(cfg["bias"]), "pad_kind": "model", "torus_kind": "model", "partial_bank": not stable, "stride": "True"}, sample={"cfg": key, "convcontract_calls_checked": n})


def finalize(tier, results, obs, hist, metas):
    mon = sum((m.get("monitor") or {}).get("checked", 0) for m in metas)
    problems = [] if mon else ["the ConvContract.__call__ probe never fired"]
    seen = set(hist.get("bias", {}))
    if not {"auto", "mean", "scalar", "True", "False"} <= seen:
        problems.append(f"bias settings not all observed: {sorted(seen)}")
    return {"monitor_postconditions_evaluated": mon}, problems


def teardown(ctx):
    return {"monitor": {"checked": _mon.checked}}
