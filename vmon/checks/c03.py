"""C03 — generated invariant filters are invariant, independent and complete.

R-monitor: postcondition on every concrete return of geom.get_unique_invariant_filters (recorder bound
in every ginjax namespace): each filter fixed by every g of the supplied group under the reference action,
rank == count (exact rational elimination for scale='one', SVD with a gap check for 'normalize'),
count == character formula (integer arithmetic); both scale modes have the same span; assembly into a
MultiImage/dict/list loses and invents nothing. Finite sweep over (G, D, M, k, p), G ranging over named subgroups on the large tuples and over every subgroup of B_2 / B_3 (enumerated from the multiplication table) on small ones."""
from __future__ import annotations

import numpy as np

from .. import probes
from ..ref import action as ract, group as rgroup, invariant as rinv
from ..util import result, viol

ID = "C03"
RULE = (
    "finite sweep over tuples (G in {B_d, SO-part, C2^d, C4 (d=2), single reflection, trivial, diag swap / C3 / C4z}, "
    "d in {2,3}, M, k, p): d=2: M=1..5, k=0..4 (all of the statement's range); d=3: M=1..5, k=0..2, and k=3 for M<=3 (seed count M^d*d^k <= 1200) "
    "(thorough; quick: d=2 M<=4,k<=2 for B_2/C2^2/C4 + d=3 M<=3,k<=1). Each tuple: both scale modes. Non-trivial: expected "
    "dimension >= 1 (dimension-0 tuples are still checked: the family must be empty); distinct by tuple."
)
RULE += " Every subgroup of B_2 (10) and of B_3 (98; quick: one per conjugacy class, 33), enumerated by the reference module, on small tuples."
RULE += " One assembly request for several side lengths (odd and even mixed, any order) is checked entry by entry."
RULE += " Assembly functions are called with the parities / orders in varying order and container; each family is re-checked under the key it is filed under. Also: operator lists in shuffled order (2 of 3 cases), a decoy request for another group of equal order first, and (thorough) the two HEAVY tuples d=3 M=5 k=3 for C3 and C4z."
EXHAUSTIVE = {"quick": True, "thorough": True}
ASSUMPTIONS = [
    "reference action; character formula (1/|G|) sum_g fix(g) tr(g)^k det(g)^p evaluated in integers",
    "d=3 with M^3*3^k > 1200 (k=3 for M>=4, k=4 for M>=3) is swept only for the two HEAVY tuples of the thorough tier (d=3, M=5, k=3; minutes and ~1 GB each); d=3 k=4 is outside the swept bound except M<=2",
]
ANCHORS = [
    "ginjax.geometric.common:get_unique_invariant_filters",
    "ginjax.geometric.common:get_invariant_filters_dict",
    "ginjax.geometric.common:get_invariant_filters_list",
    "ginjax.geometric.common:get_invariant_filters",
    "ginjax.geometric.geometric_image:GeometricFilter.rectify",
    "ginjax.geometric.geometric_image:GeometricImage.normalize",
]
MIN_NONTRIVIAL = {"quick": 40, "thorough": 250}
WORKERS = {"quick": 8, "thorough": 16}
TIMEOUT = {"quick": 1200, "thorough": 7200}


def tuples(tier):
    out = []
    if tier == "quick":
        for G in ("B", "C2d", "C4"):
            for M in range(1, 5):
                for k in range(0, 3):
                    for p in (0, 1):
                        out.append((G, 2, M, k, p))
        for G in ("B", "SO"):
            for M in range(1, 4):
                for k in range(0, 2):
                    for p in (0, 1):
                        out.append((G, 3, M, k, p))
        out += [("refl", 2, 3, 1, 0), ("trivial", 2, 2, 1, 1), ("B", 2, 5, 1, 0), ("B", 2, 3, 3, 1), ("B", 3, 2, 2, 0), ("C3", 3, 3, 1, 0)]
        out += [("B", 2, 5, 4, 0), ("C4", 2, 4, 4, 1), ("B", 3, 4, 2, 1)]  # the far end of the statement's range that is still cheap
        return out
    for G in ("B", "SO", "C2d", "C4", "refl", "diag", "trivial"):
        for M in range(1, 6):
            for k in range(0, 5):
                for p in (0, 1):
                    out.append((G, 2, M, k, p))
    for G in ("B", "SO", "C2d", "refl", "C3", "C4z", "trivial"):
        for M in range(1, 6):
            for k in range(0, 4):
                if k == 3 and M > 3:
                    continue
                for p in (0, 1):
                    out.append((G, 3, M, k, p))
    return out


# the expensive end of the statement's range (d=3, M=5, k=3: 3375 seeds, ~1 GB, minutes per tuple): thorough tier only, with
# small groups that fix the far corner / the last slab (their orbits can lie entirely in the tail of the seed list)
HEAVY = [("C3", 3, 5, 3, 0), ("C4z", 3, 5, 3, 1)]


def cases(tier, seed):
    out = []
    if tier == "thorough":
        out += [{"G": G, "D": D, "M": M, "k": k, "p": p, "heavy": True} for G, D, M, k, p in HEAVY]
    for G, D, M, k, p in tuples(tier):
        # trivial / tiny groups generate one filter per basis element: bound the family size (bigness() is a Python loop)
        dim_upper = (M**D) * (D**k)
        if G in ("trivial", "refl", "diag", "C3") and dim_upper > 220:
            continue
        if dim_upper > 1200:
            continue
        out.append({"G": G, "D": D, "M": M, "k": k, "p": p})
    # heavier tuples first so that shards balance
    out.sort(key=lambda c: -((c["M"] ** c["D"]) * (c["D"] ** c["k"])))
    for i, c in enumerate(out):
        c["i"] = i  # fixed here so that the tuples appended below do not move the per-case streams of the ones above
    # "every finite group of signed permutation matrices": ALL subgroups of B_2 (10) and of B_3 (98; quick: one per conjugacy
    # class, 33), enumerated by the reference group module, on small tuples (the named groups above carry the large ones)
    more = []
    if tier == "quick":
        for G in rgroup.all_subgroups(2):
            more += [(G, 2, 3, 1, 0), (G, 2, 2, 1, 1), (G, 2, 4, 0, 0), (G, 2, 3, 2, 1)]
        for G in rgroup.sub_class_reps(3):
            more += [(G, 3, 2, 1, 0), (G, 3, 3, 0, 1)]
    else:
        for G in rgroup.all_subgroups(2):
            more += [(G, 2, M, k, p) for M in range(1, 6) for k in range(0, 4) for p in (0, 1)]
        for G in rgroup.all_subgroups(3):
            more += [(G, 3, M, k, p) for M in range(1, 4) for k in range(0, 2) for p in (0, 1)] + [(G, 3, 2, 2, 0), (G, 3, 4, 0, 1)]
    extra = []
    for G, D, M, k, p in more:
        dim_upper = (M**D) * (D**k)
        if dim_upper > (220 if len(rgroup.all_subgroups(D)[G]) <= 3 else 1200):
            continue
        extra.append({"G": G, "D": D, "M": M, "k": k, "p": p})
    extra.sort(key=lambda c: -((c["M"] ** c["D"]) * (c["D"] ** c["k"])))
    for c in extra:
        c["i"] = len(out)
        out.append(c)
    return out


class FilterMonitor:
    def __init__(self):
        self.viol = []
        self.checked = 0
        self.last = None
        self.log = probes.EventLog()
        self.log.enabled = False

    def install(self):
        import ginjax.geometric.common as C

        probes.install_function(C, "get_unique_invariant_filters", "geom.get_unique_invariant_filters", self.log, self._on)
        return self

    def _on(self, ev):
        names = ("M", "k", "parity", "D", "operators", "scale")
        d = {"scale": "normalize"}
        d.update(dict(zip(names, ev["args"])))
        d.update(ev["kwargs"])
        ops = [np.asarray(g) for g in d["operators"]]
        if not rgroup.is_group(ops):
            return  # the statement is about groups
        self.check(d["M"], d["k"], d["parity"] % 2, d["D"], ops, d["scale"], ev["out"])

    def check(self, M, k, p, D, ops, scale, filters):
        self.checked += 1
        cfg = dict(M=M, k=k, p=p, D=D, group_order=len(ops), scale=scale)
        want_dim = rinv.invariant_dim(ops, M, D, k, p)
        shape = (M,) * D + (D,) * k
        rows = []
        for f in filters:
            a = np.asarray(f.data, dtype=np.float64)
            if a.shape != shape or f.parity != p or f.D != D or f.k != k:
                self.viol.append(viol("filter-wrong-type", f"filter has shape {a.shape}/parity {f.parity}, requested {shape}/parity {p}; {cfg}", **cfg))
                return
            for g in ops:
                if np.max(np.abs(ract.act(D, a, k, p, g) - a)) > 1e-6 * max(1.0, np.max(np.abs(a))):
                    self.viol.append(viol("filter-not-invariant", f"a generated filter is moved by g={g.tolist()}; {cfg}", **cfg, g=g.tolist(), filter=a.reshape(-1)[:40].tolist()))
                    return
            rows.append(a.reshape(-1))
        n = len(rows)
        if n:
            if scale == "one":
                r = rinv.rank_exact([[float(v) for v in row] for row in rows]) if n * len(rows[0]) <= 40000 else rinv.rank_svd(rows)[0]
                gap_ok = True
            else:
                r, gap_ok = rinv.rank_svd(rows)
            if not gap_ok:
                self.viol.append(viol("filter-rank-ill-conditioned", f"family is numerically near-dependent; {cfg}", **cfg))
                return
            if r < n:
                self.viol.append(viol("filter-family-dependent", f"{n} filters of rank {r}: family not linearly independent; {cfg}", **cfg))
                return
        if n != want_dim:
            self.viol.append(viol("filter-count-vs-dimension", f"{n} filters but the fixed subspace has dimension {want_dim}; {cfg}", **cfg, count=n, dimension=want_dim))
            return
        self.last = (cfg, np.array(rows) if rows else np.zeros((0, int(np.prod(shape)))))

    def take(self):
        v, self.viol = self.viol, []
        return v


_mon = None


def setup(ctx):
    global _mon
    import ginjax.geometric  # noqa: F401

    _mon = FilterMonitor().install()
    return rinv.selftest()


def run(case, ctx):
    import ginjax.geometric as geom

    G, D, M, k, p = (case[x] for x in ("G", "D", "M", "k", "p"))
    ops = [np.asarray(g) for g in rgroup.group_named(D, G)]
    # a group is a set: the order in which its elements are listed must not matter (in particular the identity need not
    # come first); two of three cases pass a seeded shuffle of the list
    if case["i"] % 3:
        order = np.random.default_rng([ctx["seed"], 3, case["i"]]).permutation(len(ops))
        ops = [ops[int(j)] for j in order]
    key = f"G={G}(|G|={len(ops)}) D={D} M={M} k={k} p={p}"
    viols, evals = [], 0
    _mon.take()
    spans = {}
    try:
        # history element: a previous request for another group of the SAME order (and otherwise equal arguments) must
        # not influence this one (module-level memo tables are the library's only shared mutable state)
        decoys = [n for n, Gd in rgroup.subgroups(D).items() if n != G and len(Gd) == len(ops)]
        if decoys and case["M"] <= 3 and not case.get("heavy"):
            geom.get_unique_invariant_filters(M, k, p, D, [np.asarray(g) for g in rgroup.subgroups(D)[decoys[0]]], "normalize")
            evals += 1
            viols += _mon.take()
        for scale in (("normalize",) if case.get("heavy") else ("one", "normalize")):
            _mon.last = None
            fl = geom.get_unique_invariant_filters(M, k, p, D, ops, scale)
            evals += 1
            viols += _mon.take()
            if _mon.last is not None:
                spans[scale] = _mon.last[1]
        if len(spans) == 2 and not viols:
            a, b = spans["one"], spans["normalize"]
            if len(a) != len(b):
                viols.append(viol("scale-modes-differ", f"scale modes give {len(a)} vs {len(b)} filters; {key}"))
            elif len(a):
                r, _ = rinv.rank_svd(np.concatenate([a, b]))
                if r != len(a):
                    viols.append(viol("scale-modes-span-differ", f"rescaling changed the span: rank of union {r} vs {len(a)}; {key}"))
        # assembly (dict / list / MultiImage) for this M with both parities of this k and of k=0
        if not viols and not case.get("heavy"):
            ks = sorted({0, k})
            # the request lists are sets as far as the statement goes: any order / container of the parities and orders must
            # give, under each key (k,p), the family of THAT type
            par_arg = [[0, 1], [1, 0], (1, 0), [1], (0, 1), [0]][case["i"] % 6]
            ks_arg = ks[::-1] if case["i"] % 2 else tuple(ks)
            fd, maxn = geom.get_invariant_filters_dict([M], ks_arg, par_arg, D, ops)
            fl = geom.get_invariant_filters_list([M], ks_arg, par_arg, D, ops)
            fm = geom.get_invariant_filters([M], ks_arg, par_arg, D, ops) if len(fl) else None
            evals += 3
            viols += _mon.take()
            counts = {(kk, pp): rinv.invariant_dim(ops, M, D, kk, pp) for kk in ks for pp in sorted(set(par_arg))}

            def check_dict(fdict, Ms_arg):
                """Every family of the dict, under the key (D, M', k, p) it is filed under: count == dimension, right shape and
                declared type, invariant, linearly independent."""
                for Mx in Ms_arg:
                    for kk in ks:
                        for pp in sorted(set(par_arg)):
                            c = rinv.invariant_dim(ops, Mx, D, kk, pp)
                            fam = fdict.get((D, Mx, kk, pp))
                            how = f"(sizes given as {list(Ms_arg)}, parities as {par_arg}, orders as {ks_arg})"
                            if fam is None or len(fam) != c:
                                viols.append(viol("assembly-dict", f"dict assembly holds {None if fam is None else len(fam)} filters for M={Mx} {(kk, pp)}, expected {c} {how}; {key}"))
                                continue
                            rows = []
                            for f in fam:
                                a = np.asarray(f.data, dtype=np.float64)
                                if a.shape != (Mx,) * D + (D,) * kk or f.parity != pp or f.k != kk or any(np.max(np.abs(ract.act(D, a, kk, pp, g) - a)) > 1e-6 * max(1.0, np.max(np.abs(a))) for g in ops):
                                    viols.append(viol("assembly-dict-wrong-family", f"the family filed under M={Mx} {(kk, pp)} is not invariant as a ({kk},{pp}) filter of side {Mx} / declares (k={f.k}, parity={f.parity}, shape {a.shape}) {how}; {key}"))
                                    break
                                rows.append(a.reshape(-1))
                            else:
                                if rows and rinv.rank_svd(rows)[0] < len(rows):
                                    viols.append(viol("assembly-dict-dependent", f"the family filed under M={Mx} {(kk, pp)} is linearly dependent {how}; {key}"))

            check_dict(fd, [M])
            # ONE request for several side lengths (odd and even mixed, in any order): each (D, M', k, p) entry must be the
            # family of that side length - a request is a set of independent questions
            cap = 5 if D == 2 else 3
            if (M**D) * (D**k) <= 300 and M <= cap:
                others = [m for m in (M + 1, M - 1, M + 2) if 1 <= m <= cap]
                Ms_arg = [[M] + others[:1], others[:1] + [M], others[:2] + [M], [M] + others[:2][::-1]][case["i"] % 4]
                fd2, maxn2 = geom.get_invariant_filters_dict(Ms_arg, ks_arg, par_arg, D, ops)
                fl2 = geom.get_invariant_filters_list(tuple(Ms_arg), ks_arg, par_arg, D, ops)
                evals += 2
                viols += _mon.take()
                check_dict(fd2, Ms_arg)
                want_n = sum(rinv.invariant_dim(ops, Mx, D, kk, pp) for Mx in Ms_arg for kk in ks for pp in sorted(set(par_arg)))
                if len(fl2) != want_n:
                    viols.append(viol("assembly-list", f"list assembly for sizes {Ms_arg} has {len(fl2)} filters, expected {want_n}; {key}"))
                for Mx in Ms_arg:
                    want_max = max(rinv.invariant_dim(ops, Mx, D, kk, pp) for kk in ks for pp in sorted(set(par_arg)))
                    if maxn2.get((D, Mx)) != want_max:
                        viols.append(viol("assembly-dict", f"maxn[(D={D}, M={Mx})] = {maxn2.get((D, Mx))}, the largest family has {want_max} filters (sizes given as {Ms_arg}); {key}"))
            if len(fl) != sum(counts.values()):
                viols.append(viol("assembly-list", f"list assembly has {len(fl)} filters, expected {sum(counts.values())}; {key}"))
            if fm is not None:
                want_keys = {t for t, c in counts.items() if c > 0}
                if set(fm.keys()) != want_keys:
                    viols.append(viol("assembly-multi-image-types", f"MultiImage assembly has types {sorted(fm.keys())}, expected {sorted(want_keys)}; {key}"))
                else:
                    for t in want_keys:
                        if tuple(fm[t].shape) != (counts[t],) + (M,) * D + (D,) * t[0]:
                            viols.append(viol("assembly-multi-image-shape", f"block {t} has shape {tuple(fm[t].shape)}, expected {(counts[t],) + (M,) * D + (D,) * t[0]}; {key}"))
                        else:
                            blk = np.asarray(fm[t], dtype=np.float64)
                            ref = np.array([np.asarray(f.data) for f in fd[(D, M, t[0], t[1])]], dtype=np.float64)
                            if not np.allclose(blk, ref, atol=1e-6):
                                viols.append(viol("assembly-multi-image-values", f"block {t} does not hold the generated filters in order; {key}"))
    except Exception as e:
        import traceback

        viols.append(viol(f"filters-exception-{type(e).__name__}", f"{type(e).__name__}: {str(e)[:300]}; {key}; {traceback.format_exc()[-400:]}"))
    dim = rinv.invariant_dim(ops, M, D, k, p)
    return result(key, viols, dim >= 1, evals=evals, obs={"filter_families_checked": evals, "filters_checked": int(dim) * 2},
                  hist={"G": G, "D": D, "M": M, "k": k, "p": p, "dim": dim}, sample={"tuple": case, "dimension": dim})


def finalize(tier, results, obs, hist, metas):
    mon = sum((m.get("monitor") or {}).get("checked", 0) for m in metas)
    return {"monitor_postconditions_evaluated": mon}, ([] if mon else ["the get_unique_invariant_filters probe never fired"])


def teardown(ctx):
    return {"monitor": {"checked": _mon.checked}}
