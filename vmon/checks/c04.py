"""C04 — convolution computes its mathematical definition in every mode.

R-monitor (monitors.ConvMonitor) on geom.convolve / geom.convolve_contract: every concrete return is
compared with the NumPy direct-sum reference; the workload is a random product of option sets
(the hostile part is their interaction). Trace laws on top: bilinearity, fused == conv-then-contract,
GeometricImage.convolve_with and convolve_ravel agree with the same definition."""
from __future__ import annotations

import numpy as np

from .. import gen, monitors
from ..ref import conv as rconv
from ..util import err_exact, lattice, result, rng_for, small, viol

ID = "C04"
RULE = (
    "cases = random option sets (D, non-square shape, batch, in/out channels, k, k', filter side odd/even/non-square, "
    "padding None/TORUS/SAME/VALID/int/explicit-asymmetric, all torus-flag patterns (bool or tuple), stride, rhs and lhs "
    "dilation) with output extents >= 1; every concrete return of convolve / convolve_contract is compared with the "
    "direct-sum reference on integer lattice operands (exact). Non-trivial: output not identically zero; distinct by option set."
)
RULE += " Also: realistic sizes, an int32-typed filter on a quarter-integer image, NumPy operands, object-level convolve_with, convolve_ravel."
ASSUMPTIONS = [
    "reference convolution vmon/ref/conv.py (self-tested against explicit index loops and a 1-pixel case)",
    "string TORUS padding together with lhs dilation is judged against wrap -> interleave -> pad (reported as its own cell)",
]
ANCHORS = [
    "ginjax.geometric.functional_geometric_image:convolve",
    "ginjax.geometric.functional_geometric_image:convolve_ravel",
    "ginjax.geometric.functional_geometric_image:convolve_contract",
    "ginjax.geometric.functional_geometric_image:get_torus_expanded",
    "ginjax.geometric.functional_geometric_image:get_same_padding",
    "ginjax.geometric.functional_geometric_image:pre_tensor_product_expand",
    "ginjax.geometric.functional_geometric_image:conv_contract_image_expand",
]
MIN_NONTRIVIAL = {"quick": 200, "thorough": 2000}
WORKERS = {"quick": 8, "thorough": 16}
TIMEOUT = {"quick": 900, "thorough": 5400}


def cases(tier, seed):
    n = 480 if tier == "quick" else 9000
    out = [{"D": 2 if (i % 4) else 3} for i in range(n)]
    if tier == "thorough":
        out.insert(0, {"kind": "suite", "D": 2})
    return out


_mon = None


def setup(ctx):
    global _mon
    import ginjax.geometric  # noqa: F401

    st = rconv.selftest()
    _mon = monitors.ConvMonitor(max_elems=400_000_000).install()
    return st


def run(case, ctx):
    import contextlib
    import io

    import jax.numpy as jnp
    import ginjax.geometric as geom

    if case.get("kind") == "suite":
        from .. import suite

        return suite.run_suite("conv")
    rng = rng_for(ctx["seed"], ID, case["i"])
    D = case["D"]
    cfg = gen.conv_config(rng, D)
    if case["i"] % 40 == 39:
        # realistic sizes: a larger image and more channels (code paths gated on sizes), cheap tensor orders
        cfg["sp"] = [int(v) for v in (rng.integers(24, 49, size=2) if D == 2 else rng.integers(8, 13, size=3))]
        cfg["Cin"], cfg["Cout"], cfg["k"], cfg["k2"] = int(rng.integers(8, 33)), int(rng.integers(8, 17)), int(rng.integers(0, 2)), int(rng.integers(0, 2))
    is_torus, stride, padding, lhs, rhs = gen.conv_args(cfg)
    sp, fsp, k, k2 = tuple(cfg["sp"]), tuple(cfg["fsp"]), cfg["k"], cfg["k2"]
    B, Cin, Cout = cfg["B"], cfg["Cin"], cfg["Cout"]
    A = lattice(rng, (B, Cin) + sp + (D,) * k)
    A2 = lattice(rng, (B, Cin) + sp + (D,) * k)
    F = lattice(rng, (Cout, Cin) + fsp + (D,) * k2, -2, 2)
    F2 = lattice(rng, (Cout, Cin) + fsp + (D,) * k2, -2, 2)
    key = {kk: cfg[kk] for kk in ("D", "sp", "fsp", "is_torus", "stride", "padding", "lhs", "rhs", "k", "k2", "B", "Cin", "Cout")}
    viols, evals = [], 0
    _mon.take()
    sink = io.StringIO()
    opts = (is_torus, stride, padding, lhs, rhs)
    try:
        with contextlib.redirect_stdout(sink):
            out = np.asarray(geom.convolve(D, jnp.asarray(A), jnp.asarray(F), *opts))
            evals += 1
            # bilinearity (trace laws)
            o2 = np.asarray(geom.convolve(D, jnp.asarray(2 * A - A2), jnp.asarray(F), *opts))
            oA2 = np.asarray(geom.convolve(D, jnp.asarray(A2), jnp.asarray(F), *opts))
            o3 = np.asarray(geom.convolve(D, jnp.asarray(A), jnp.asarray(2 * F - F2), *opts))
            oF2 = np.asarray(geom.convolve(D, jnp.asarray(A), jnp.asarray(F2), *opts))
            evals += 4
    except Exception as e:
        viols.append(viol(f"convolve-exception-{type(e).__name__}", f"convolve raised {type(e).__name__}: {str(e)[:300]} on {key}", cfg=cfg))
        return result(key, viols + _mon.take(), True, evals=evals, hist=hist_of(cfg))
    viols += _mon.take()
    want_sp = rconv.out_extents(sp, fsp, is_torus, stride, padding, lhs, rhs)
    if out.shape != (B, Cout) + want_sp + (D,) * (k + k2):
        viols.append(viol("convolve-shape", f"output shape {out.shape} != size formula {(B, Cout) + want_sp + (D,) * (k + k2)} for {key}", cfg=cfg))
    if not viols:
        if err_exact(o2, 2 * out - oA2) > 1e-4:
            viols.append(viol("convolve-not-linear-in-image", f"conv(2A-B,F) != 2conv(A,F)-conv(B,F): {key}", cfg=cfg))
        if err_exact(o3, 2 * out - oF2) > 1e-4:
            viols.append(viol("convolve-not-linear-in-filter", f"conv(A,2F-G) != 2conv(A,F)-conv(A,G): {key}", cfg=cfg))
    # operand representations: an integer-typed filter (a literal stencil) applied to a non-integer image, NumPy arrays
    # handed over as they are - the R-monitor evaluates the definition on the values that were passed
    if not viols and not case["i"] % 40 == 39:
        try:
            with contextlib.redirect_stdout(sink):
                Aq = (A * 0.25 + 0.125).astype(np.float32)
                oi = np.asarray(geom.convolve(D, jnp.asarray(Aq), jnp.asarray(F.astype(np.int32)), *opts))
                on = np.asarray(geom.convolve(D, Aq, F.astype(np.float32), *opts))
                evals += 2
            wantq = rconv.convolve(D, Aq.astype(np.float64), F, is_torus if isinstance(is_torus, tuple) else (is_torus,) * D, stride, padding, lhs, rhs)
            for nm, got in (("int32 filter", oi), ("NumPy operands", on)):
                if got.shape != wantq.shape or err_exact(got, wantq) > 1e-4:
                    viols.append(viol("convolve-operand-representation", f"convolve with {nm} and a quarter-integer image != definition (shape {got.shape} vs {wantq.shape}, err {err_exact(got, wantq) if got.shape == wantq.shape else 'n/a'}): {key}", cfg=cfg))
        except Exception as e:
            viols.append(viol(f"convolve-exception-{type(e).__name__}", f"convolve (int32 filter / NumPy operands) raised {type(e).__name__}: {str(e)[:300]} on {key}", cfg=cfg))
        viols += _mon.take()
    # fused convolve-and-contract: filter order k + k3
    k3 = int(rng.integers(0, 2 if (k + 1 <= (2 if D == 3 else 3)) else 1))
    Fc = lattice(rng, (Cout, Cin) + fsp + (D,) * (k + k3), -2, 2)
    try:
        with contextlib.redirect_stdout(sink):
            fused = np.asarray(geom.convolve_contract(D, jnp.asarray(A), jnp.asarray(Fc), *opts))
            evals += 1
            full = geom.convolve(D, jnp.asarray(A), jnp.asarray(Fc), *opts)
            evals += 1
            unf = full
            for n in range(k):
                unf = geom.multicontract(unf, ((0, k - n),), idx_shift=2 + D)
            unf = np.asarray(unf)
        if err_exact(fused, unf) > 1e-4:
            viols.append(viol("fused-vs-unfused", f"convolve_contract != multicontract(convolve): {key} filter k={k + k3}", cfg=cfg, got=small(fused), want=small(unf)))
    except Exception as e:
        viols.append(viol(f"convolve-contract-exception-{type(e).__name__}", f"convolve_contract raised {type(e).__name__}: {str(e)[:300]} on {key}", cfg=cfg))
    viols += _mon.take()
    # object-level entry (single image, single filter; the is_torus tuple comes from the image)
    try:
        with contextlib.redirect_stdout(sink):
            tor_t = is_torus if isinstance(is_torus, tuple) else (is_torus,) * D
            img = geom.GeometricImage(jnp.asarray(A[0, 0]), 0, D, tor_t)
            fil = geom.GeometricImage(jnp.asarray(F[0, 0]), 1, D, tor_t)
            cw = img.convolve_with(fil, stride, padding, lhs, rhs)
            evals += 1
        want = rconv.convolve(D, A[:1, :1], F[:1, :1], tor_t, stride, padding, lhs, rhs)[0, 0]
        if err_exact(cw.data, want) > 1e-4 or cw.k != k + k2 or cw.parity != 1 or cw.D != D:
            viols.append(viol("convolve_with-mismatch", f"GeometricImage.convolve_with != definition or wrong declared type (k={cw.k}, parity={cw.parity}) for {key}", cfg=cfg))
    except Exception as e:
        viols.append(viol(f"convolve_with-exception-{type(e).__name__}", f"convolve_with raised {type(e).__name__}: {str(e)[:300]} on {key}", cfg=cfg))
    # raveled entry point on scalar channels
    if k == 0 and k2 == 0:
        try:
            with contextlib.redirect_stdout(sink):
                img_r = jnp.moveaxis(jnp.asarray(A), 1, -1)  # (B,spatial,Cin)
                fil_r = jnp.moveaxis(jnp.moveaxis(jnp.asarray(F), 0, -1), 0, D)  # (spatial,Cin,Cout)
                rv = np.asarray(geom.convolve_ravel(D, img_r, fil_r, *opts))
                evals += 1
            if err_exact(np.moveaxis(rv, -1, 1), out) > 1e-4:
                viols.append(viol("convolve_ravel-mismatch", f"convolve_ravel != convolve on scalar channels: {key}", cfg=cfg))
        except Exception as e:
            viols.append(viol(f"convolve_ravel-exception-{type(e).__name__}", f"{e}", cfg=cfg))
    nontrivial = bool(np.any(out != 0))
    return result(
        key, viols, nontrivial, evals=evals, obs={"monitored_conv_returns": evals},
        hist=hist_of(cfg), sample={"cfg": cfg, "out_first": small(out, 6)},
    )


def hist_of(cfg):
    return {
        "D": cfg["D"], "pad_kind": cfg["pad_kind"] + ("+lhs" if cfg["lhs"] is not None else ""), "filter_kind": cfg["filter_kind"],
        "torus_kind": cfg["torus_kind"], "k,k2": f"{cfg['k']},{cfg['k2']}", "stride": "1" if cfg["stride"] == 1 else "other",
        "rhs": "1" if cfg["rhs"] == 1 else "dilated", "lhs": "none" if cfg["lhs"] is None else "dilated",
    }


def finalize(tier, results, obs, hist, metas):
    problems = []
    need = {"None", "TORUS", "SAME", "VALID", "int", "explicit"}
    seen = {k.split("+")[0] for k in hist.get("pad_kind", {})}
    if not need <= seen:
        problems.append(f"padding branches not all observed: missing {sorted(need - seen)}")
    mon = {"checked_convolve": 0, "checked_convolve_contract": 0, "skipped": 0}
    for m in metas:
        for k, v in (m.get("monitor") or {}).items():
            mon[k] = mon.get(k, 0) + v
    if mon["checked_convolve"] == 0:
        problems.append("the convolve R-monitor never saw a concrete return")
    return {"monitor_counts": mon}, problems


def teardown(ctx):
    return {"monitor": {"checked_convolve": _mon.checked["convolve"], "checked_convolve_contract": _mon.checked["convolve_contract"], "skipped": _mon.skipped, "patched_bindings": _mon.patched}}
