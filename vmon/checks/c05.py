"""C05 — image algebra is type-sound: the declared (k, parity) is how results transform.

P-monitor: a seeded, type-directed random expression tree over the GeometricImage algebra is evaluated by
the real operators on leaves L and on g.L (reference action; filter leaves transformed too); the two node
traces are aligned node by node: every node's declared (k, parity) must equal the grammar's type and
node(g.L) must equal g.node(L) under the declared type; the first diverging node is the witness.
Class-level recorders count operator executions. Extra laws: contraction independent of pair order and
order inside a pair; A(x)B == transpose(B(x)A). A high-order stratum reaches intermediate tensor orders 5..8 (d=2) / 4..6 (d=3)."""
from __future__ import annotations

import itertools as it

import numpy as np

from .. import probes
from ..ref import action as ract, group as rgroup
from ..util import result, rng_for, small, viol

ID = "C05"
RULE = (
    "cases = seeded type-directed random expression trees (depth <=5 quick / <=7 thorough, <=12 operator nodes, k capped at 4 "
    "(d=2) / 3 (d=3)) over {+,-,scalar*,*scalar,tensor product,transpose,contract,multicontract,levi_civita_contract,norm,"
    "convolve_with}; leaves: integer lattice images (k<=3, both parities) and 3^d filters; all g in B_2, 12 (quick) / 48 "
    "(thorough) g in B_3. Non-trivial: >=2 operator nodes, root not identically zero, g != e; distinct by canonical tree string."
)
RULE += " High-order stratum: products of low-order leaves reaching k=5..8 (d=2) / 4..6 (d=3) on small boxes, reduced by chains of transpose / contract / multicontract / levi_civita_contract."
RULE += " Single operators on narrow containers (uint8 / uint16 / int8 / int16, values 0..3) against the float32 image. Also: non-square images with per-axis flags, filter leaves with unequal sides from {1,3,5} (1 case in 3), object-level variant with the library's own action, strided root convolution in the equivariant regime."
ASSUMPTIONS = ["reference action", "comparison relative 1e-4 of the node's magnitude (exact for integer nodes; float below a norm node)"]
ANCHORS = [
    "ginjax.geometric.geometric_image:GeometricImage.__init__", "ginjax.geometric.geometric_image:GeometricImage.__add__", "ginjax.geometric.geometric_image:GeometricImage.__sub__",
    "ginjax.geometric.geometric_image:GeometricImage.__mul__", "ginjax.geometric.geometric_image:GeometricImage.transpose", "ginjax.geometric.geometric_image:GeometricImage.contract",
    "ginjax.geometric.geometric_image:GeometricImage.multicontract", "ginjax.geometric.geometric_image:GeometricImage.levi_civita_contract", "ginjax.geometric.geometric_image:GeometricImage.norm",
    "ginjax.geometric.geometric_image:GeometricImage.convolve_with", "ginjax.geometric.functional_geometric_image:mul", "ginjax.geometric.functional_geometric_image:multicontract",
]
MIN_NONTRIVIAL = {"quick": 120, "thorough": 6000}
WORKERS = {"quick": 8, "thorough": 16}
TIMEOUT = {"quick": 1200, "thorough": 7200}
OPS = ["add", "sub", "scale", "rscale", "mul", "transpose", "contract", "multicontract", "levi", "norm", "conv"]


def cases(tier, seed):
    n = 300 if tier == "quick" else 14000
    out = [{"D": 2 if i % 3 else 3} for i in range(n)]
    # high-order stratum (appended, so the streams of the cases above do not move): a product of low-order leaves reaching
    # k = 5..8 (d=2) / 4..6 (d=3), then a chain of transposes / contractions / Levi-Civita contractions down to k <= 2
    out += [{"D": 2 if i % 2 else 3, "high": True} for i in range(36 if tier == "quick" else 1200)]
    return out


_log = probes.EventLog()
_log.enabled = False
_calls = {}


def setup(ctx):
    from ginjax.geometric.geometric_image import GeometricImage

    for m in ("__add__", "__sub__", "__mul__", "__rmul__", "transpose", "contract", "multicontract", "levi_civita_contract", "norm", "convolve_with"):
        def cnt(ev, m=m):
            _calls[m] = _calls.get(m, 0) + 1
        probes.wrap_method(GeometricImage, m, f"GeometricImage.{m}", _log, cnt)
    return ract.selftest()


class Gen:
    def __init__(self, rng, D, max_depth, budget=12):
        self.rng, self.D = rng, D
        self.cap = 4 if D == 2 else 3
        self.max_depth = max_depth
        self.budget = budget
        self.leaves = []  # (kind, k, p)
        self.nops = 0

    def leaf(self, k, p, kind="image"):
        self.leaves.append((kind, k, p))
        return ("leaf", len(self.leaves) - 1, k, p)

    def gen(self, k, p, depth):
        rng, D = self.rng, self.D
        if depth <= 0 or self.nops >= self.budget or (k <= 3 and rng.random() < 0.15):
            if k <= 3:
                return self.leaf(k, p)
        prods = []
        if k <= 3:
            prods += ["add", "sub", "scale", "rscale"]
        if k >= 2:
            prods += ["transpose", "mul"]
        if k >= 1:
            prods += ["mul", "conv"]
        if k + 2 <= self.cap:
            prods += ["contract", "contract"]
        if k + 4 <= self.cap:
            prods += ["multicontract", "multicontract"]
        src_k = k + D - 2
        if src_k >= D - 1 and src_k <= self.cap and src_k >= 1:
            prods += ["levi", "levi"]
        if (k, p) == (0, 0):
            prods += ["norm", "norm"]
        prods += ["conv"]
        if k > 3 and not prods:
            prods = ["mul"]
        op = prods[int(rng.integers(len(prods)))]
        self.nops += 1
        d = depth - 1
        if op in ("add", "sub"):
            return (op, self.gen(k, p, d), self.gen(k, p, d), k, p)
        if op in ("scale", "rscale"):
            return (op, self.gen(k, p, d), int(rng.integers(-3, 4)) or 2, k, p)
        if op == "transpose":
            perm = tuple(int(v) for v in rng.permutation(k))
            return (op, self.gen(k, p, d), perm, k, p)
        if op == "mul":
            k1 = int(rng.integers(0, k + 1))
            p1 = int(rng.integers(0, 2))
            return (op, self.gen(k1, p1, d), self.gen(k - k1, (p - p1) % 2, d), k, p)
        if op == "contract":
            i, j = (int(v) for v in rng.choice(k + 2, size=2, replace=False))
            return (op, self.gen(k + 2, p, d), (i, j), k, p)
        if op == "multicontract":
            idx = [int(v) for v in rng.permutation(k + 4)[:4]]
            return (op, self.gen(k + 4, p, d), ((idx[0], idx[1]), (idx[2], idx[3])), k, p)
        if op == "levi":
            idx = tuple(int(v) for v in rng.choice(src_k, size=D - 1, replace=False))
            return (op, self.gen(src_k, (p + 1) % 2, d), idx, k, p)
        if op == "norm":
            kk = int(rng.integers(0, min(3, self.cap) + 1))
            return (op, self.gen(kk, int(rng.integers(0, 2)), d), None, 0, 0)
        if op == "conv":
            k2 = int(rng.integers(0, min(k, 2) + 1))
            p2 = int(rng.integers(0, 2))
            f = self.leaf(k2, p2, "filter")
            return (op, self.gen(k - k2, (p - p2) % 2, d), f, k, p)
        raise ValueError(op)


def gen_high(g_, rng, D):
    """High intermediate orders: (x) of leaves with k in 1..3 up to K, then reductions until k <= 2 (each node typed)."""
    K = int(rng.integers(5, 9)) if D == 2 else int(rng.integers(4, 7))
    parts, left = [], K
    while left > 0:
        k1 = int(min(left, rng.integers(1, 4)))
        parts.append(k1)
        left -= k1
    node = None
    for k1 in parts:
        lf = g_.leaf(k1, int(rng.integers(0, 2)))
        if node is None:
            node = lf
        else:
            a, b = (node, lf) if rng.integers(0, 2) else (lf, node)
            node = ("mul", a, b, a[-2] + b[-2], (a[-1] + b[-1]) % 2)
            g_.nops += 1
    steps = 0
    while node[-2] > 2 or steps < 2:
        k, p = node[-2], node[-1]
        prods = []
        if k >= 2 and steps < 6:
            prods += ["transpose"]
        if k >= 2:
            prods += ["contract", "contract"]
        if k >= 4:
            prods += ["multicontract"]
        if k >= max(D - 1, 1):
            prods += ["levi", "levi"] if (D == 3 or steps < 4) else []
        if not prods:
            break
        op = prods[int(rng.integers(len(prods)))]
        if op == "transpose":
            node = (op, node, tuple(int(v) for v in rng.permutation(k)), k, p)
        elif op == "contract":
            i, j = (int(v) for v in rng.choice(k, size=2, replace=False))
            node = (op, node, (i, j), k - 2, p)
        elif op == "multicontract":
            idx = [int(v) for v in rng.permutation(k)[:4]]
            node = (op, node, ((idx[0], idx[1]), (idx[2], idx[3])), k - 4, p)
        else:
            idx = tuple(int(v) for v in rng.choice(k, size=D - 1, replace=False))
            node = (op, node, idx, k - (D - 1) + 1, (p + 1) % 2)
        g_.nops += 1
        steps += 1
        if steps > 14:
            break
    return node


def tree_str(t):
    if t[0] == "leaf":
        return f"L{t[1]}({t[2]},{t[3]})"
    if t[0] in ("add", "sub", "mul", "conv"):
        return f"{t[0]}({tree_str(t[1])},{tree_str(t[2])})"
    return f"{t[0]}[{t[2]}]({tree_str(t[1])})"


def count_ops(t, acc):
    if t[0] == "leaf":
        return
    acc.append(t[0])
    count_ops(t[1], acc)
    if t[0] in ("add", "sub", "mul", "conv"):
        count_ops(t[2], acc)


def evaluate(t, leaves, trace):
    """Evaluate with the real operators; appends (node string, grammar type, result) to trace."""
    op = t[0]
    if op == "leaf":
        return leaves[t[1]]
    a = evaluate(t[1], leaves, trace)
    if op == "add":
        r = a + evaluate(t[2], leaves, trace)
    elif op == "sub":
        r = a - evaluate(t[2], leaves, trace)
    elif op == "scale":
        r = a * t[2]
    elif op == "rscale":
        r = t[2] * a
    elif op == "mul":
        r = a * evaluate(t[2], leaves, trace)
    elif op == "transpose":
        r = a.transpose(t[2])
    elif op == "contract":
        r = a.contract(*t[2])
    elif op == "multicontract":
        r = a.multicontract(t[2])
    elif op == "levi":
        r = a.levi_civita_contract(t[2] if len(t[2]) > 1 else t[2][0])
    elif op == "norm":
        r = a.norm()
    elif op == "conv":
        r = a.convolve_with(evaluate(t[2], leaves, trace))
    trace.append((f"{op}{'' if op in ('add', 'sub', 'mul', 'conv', 'norm') else list(t[2]) if isinstance(t[2], tuple) else [t[2]]}", (t[-2], t[-1]), r))
    return r


def run(case, ctx):
    import jax.numpy as jnp
    import ginjax.geometric as geom

    rng = rng_for(ctx["seed"], ID, case["i"])
    D = case["D"]
    N = 3
    # spatial extents: cubes and non-square boxes; per-axis boundary flags (they travel with their axes under g)
    sp = (N,) * D if rng.integers(0, 2) else tuple(int(v) for v in rng.integers(3, 5, size=D))
    torus = tuple(bool(v) for v in rng.integers(0, 2, size=D)) if rng.integers(0, 2) else (bool(rng.integers(0, 2)),) * D
    g_ = Gen(rng, D, int(rng.integers(2, (5 if ctx["tier"] == "quick" else 7) + 1)))
    root_k = int(rng.integers(0, 3))
    if case.get("high"):
        sp = (2,) * D if rng.integers(0, 2) else tuple(int(v) for v in rng.integers(1, 4, size=D))
        tree = gen_high(g_, rng, D)
        root_k = tree[-2]
    else:
        tree = g_.gen(root_k, int(rng.integers(0, 2)), g_.max_depth)
    ops = []
    count_ops(tree, ops)
    ts = tree_str(tree)
    # filter leaves are plain geometric images: one case in three gives them unequal odd sides (1, 3, 5 - longer than the
    # image on some axes), which a g in B_d carries to other axes
    fsh = (N,) * D if case["i"] % 3 else tuple(int(v) for v in rng.choice([1, 3, 3, 5], size=D))
    leaf_data = [rng.integers(-2, 3, size=(fsh if kind == "filter" else sp) + (D,) * k).astype(np.float32) for kind, k, p in g_.leaves]
    mk = lambda arrs, tor=torus: [geom.GeometricImage(jnp.asarray(a), p, D, tor) for a, (_, k, p) in zip(arrs, g_.leaves)]
    viols, evals = [], 0
    try:
        base_trace = []
        root = evaluate(tree, mk(leaf_data), base_trace)
        evals += 1
    except Exception as e:
        import traceback

        return result(ts, [viol(f"algebra-exception-{type(e).__name__}", f"{type(e).__name__}: {str(e)[:200]} evaluating {ts}; {traceback.format_exc()[-300:]}")], True, hist={"D": D, "ops": ops})
    # declared types
    for idx, (name, (k, p), r) in enumerate(base_trace):
        if r.k != k or r.parity != p or r.D != D:
            viols.append(viol("declared-type-mismatch", f"node {idx} {name}: declares (k={r.k}, parity={r.parity}), the grammar gives ({k},{p}); tree {ts}", node=idx, op=name.split("[")[0]))
            break
    G = rgroup.hyperoctahedral(D)
    if D == 3 and ctx["tier"] == "quick":
        G = rgroup.conjugacy_class_reps(3) + [G[int(i)] for i in rng.choice(len(G), size=2, replace=False)]
    if not viols:
        for g in G:
            gl = [ract.act(D, a, k, p, g).astype(np.float32) for a, (_, k, p) in zip(leaf_data, g_.leaves)]
            tr = []
            try:
                evaluate(tree, mk(gl, rgroup.transport(g, torus)), tr)
                evals += 1
            except Exception as e:
                viols.append(viol(f"algebra-exception-{type(e).__name__}", f"{type(e).__name__}: {str(e)[:200]} on g.L for {ts}"))
                break
            for idx, ((name, (k, p), r0), (_, _, r1)) in enumerate(zip(base_trace, tr)):
                want = ract.act(D, np.asarray(r0.data), r0.k, r0.parity, g)
                got = np.asarray(r1.data)
                scale = max(1.0, float(np.max(np.abs(want))) if want.size else 1.0)
                if tuple(r1.is_torus) != rgroup.transport(g, tuple(r0.is_torus)):
                    viols.append(viol("node-flags-not-transported", f"node {idx} ({name}): boundary flags {r1.is_torus} on g.L, expected {rgroup.transport(g, tuple(r0.is_torus))}; tree {ts}", node=idx, g=g.tolist()))
                    break
                if got.shape != want.shape or float(np.max(np.abs(got - want))) > 1e-4 * scale:
                    viols.append(viol(f"node-not-equivariant-{name.split('[')[0]}", f"first diverging node {idx} ({name}, declared (k={r0.k},p={r0.parity})): E(g.L) != g.E(L) for g={g.tolist()}; tree {ts}", node=idx, g=g.tolist(), got=small(got), want=small(want)))
                    break
            if viols:
                break
    # object-level variant: operands transformed by the library's own GeometricImage.times_group_element (what a user does);
    # the root must still be the reference action of the original root, flags included
    if not viols:
        base_leaves = mk(leaf_data)
        for gi in rng.choice(len(G), size=min(3, len(G)), replace=False):
            g = G[int(gi)]
            try:
                tr = []
                r1 = evaluate(tree, [lf.times_group_element(g) for lf in base_leaves], tr) if tree[0] != "leaf" else base_leaves[tree[1]].times_group_element(g)
                evals += 1
            except Exception as e:
                viols.append(viol(f"algebra-exception-{type(e).__name__}", f"{type(e).__name__}: {str(e)[:200]} on library-transformed leaves for {ts}"))
                break
            want = ract.act(D, np.asarray(root.data), root.k, root.parity, g)
            got = np.asarray(r1.data)
            scale = max(1.0, float(np.max(np.abs(want))) if want.size else 1.0)
            if got.shape != want.shape or float(np.max(np.abs(got - want))) > 1e-4 * scale or tuple(r1.is_torus) != rgroup.transport(g, tuple(root.is_torus)):
                viols.append(viol("object-level-expression-not-covariant", f"E(g.L) != g.E(L) with operands transformed by GeometricImage.times_group_element (flags {root.is_torus} -> {r1.is_torus}) for g={g.tolist()}; tree {ts}", g=g.tolist()))
                break
    # strided convolution of the root with a fresh filter, in the regime where a strided 'same' convolution commutes with
    # the group at all: zero padding and every extent N with (N-1) % stride == 0
    if not viols and root.k <= 2:
        strides = [st for st in (2, 3) if all((n - 1) % st == 0 for n in sp)]
        if strides:
            st = strides[int(rng.integers(len(strides)))]
            kf, pf = int(rng.integers(0, 2)), int(rng.integers(0, 2))
            Fd = rng.integers(-2, 3, size=(N,) * D + (D,) * kf).astype(np.float32)
            nt = (False,) * D
            R0 = geom.GeometricImage(root.data, root.parity, D, nt)
            c0 = R0.convolve_with(geom.GeometricImage(jnp.asarray(Fd), pf, D, nt), st)
            evals += 1
            for gi in rng.choice(len(G), size=min(3, len(G)), replace=False):
                g = G[int(gi)]
                Rg = geom.GeometricImage(jnp.asarray(ract.act(D, np.asarray(root.data), root.k, root.parity, g).astype(np.float32)), root.parity, D, nt)
                Fg = geom.GeometricImage(jnp.asarray(ract.act(D, Fd, kf, pf, g).astype(np.float32)), pf, D, nt)
                cg = Rg.convolve_with(Fg, st)
                evals += 1
                want = ract.act(D, np.asarray(c0.data), c0.k, c0.parity, g)
                got = np.asarray(cg.data)
                scale = max(1.0, float(np.max(np.abs(want))) if want.size else 1.0)
                if got.shape != want.shape or float(np.max(np.abs(got - want))) > 1e-4 * scale or c0.k != root.k + kf or c0.parity != (root.parity + pf) % 2:
                    viols.append(viol("strided-conv-not-covariant", f"stride {st} convolution of the root (extents {sp}, zero padding) with a filter ({kf},{pf}): E(g.L) != g.E(L) for g={g.tolist()}; tree {ts}", g=g.tolist(), stride=st))
                    break
    # extra laws on fresh operands
    if not viols:
        k = int(rng.integers(2, (4 if D == 2 else 3) + 1))
        A = geom.GeometricImage(jnp.asarray(rng.integers(-2, 3, size=sp + (D,) * k).astype(np.float32)), 0, D, torus)
        i, j = (int(v) for v in rng.choice(k, size=2, replace=False))
        if not np.array_equal(np.asarray(A.contract(i, j).data), np.asarray(A.contract(j, i).data)):
            viols.append(viol("contract-order-inside-pair", f"contract({i},{j}) != contract({j},{i}) for k={k}"))
        if k >= 4:
            idx = [int(v) for v in rng.permutation(k)[:4]]
            p1, p2 = (idx[0], idx[1]), (idx[2], idx[3])
            a = np.asarray(A.multicontract((p1, p2)).data)
            b = np.asarray(A.multicontract((p2, p1)).data)
            c = np.asarray(A.multicontract(((p1[1], p1[0]), p2)).data)
            if not (np.array_equal(a, b) and np.array_equal(a, c)):
                viols.append(viol("contract-pair-order", f"multicontract depends on the order of pairs {p1},{p2}"))
        k1, k2 = int(rng.integers(0, 3)), int(rng.integers(0, 2))
        X = geom.GeometricImage(jnp.asarray(rng.integers(-2, 3, size=sp + (D,) * k1).astype(np.float32)), 1, D, torus)
        Y = geom.GeometricImage(jnp.asarray(rng.integers(-2, 3, size=sp + (D,) * k2).astype(np.float32)), 0, D, torus)
        xy, yx = X * Y, Y * X
        perm = tuple(range(k2, k1 + k2)) + tuple(range(k2))
        if not np.array_equal(np.asarray(xy.data), np.asarray(yx.transpose(perm).data)) or xy.parity != yx.parity:
            viols.append(viol("tensor-product-commutativity", f"A(x)B != transpose(B(x)A) for k={k1},{k2}"))
        evals += 3
        # container independence of the single operators: an image stored in a narrow container (uint8 / uint16 / int8 / int16:
        # masks, raw sensor counts) with small values - every exact result below is representable in the input container - must
        # give the values and the declared type of the same operator on the float32 image (differences are left out: an
        # unsigned difference wraps by the container's own arithmetic)
        dt = ["uint8", "int16", "uint16", "int8"][case["i"] % 4]
        kz = int(rng.integers(max(2, D - 1), 4)) if D == 2 else int(rng.integers(2, 4))
        zv = rng.integers(0, 4, size=sp + (D,) * kz)
        yv = rng.integers(0, 3, size=sp + (D,) * 1)
        Zn, Zf = (geom.GeometricImage(jnp.asarray(zv.astype(d_)), 1, D, torus) for d_ in (dt, np.float32))
        Yn, Yf = (geom.GeometricImage(jnp.asarray(yv.astype(d_)), 0, D, torus) for d_ in (dt, np.float32))
        pair = tuple(int(v) for v in rng.permutation(kz)[:2])
        lidx = tuple(int(v) for v in rng.permutation(kz)[: D - 1])
        single = [
            ("transpose", lambda z, y: z.transpose(tuple(range(kz))[::-1])), ("contract", lambda z, y: z.contract(*pair)),
            ("levi_civita_contract", lambda z, y: z.levi_civita_contract(lidx if len(lidx) > 1 else lidx[0])), ("mul", lambda z, y: z * y),
            ("add", lambda z, y: z + z), ("scale", lambda z, y: z * 2), ("norm", lambda z, y: z.norm()),
        ]
        for nm, f_ in single:
            try:
                rn, rf = f_(Zn, Yn), f_(Zf, Yf)
            except Exception as e:
                viols.append(viol(f"operator-exception-{type(e).__name__}", f"{nm} on a {dt} image raised {type(e).__name__}: {str(e)[:200]}"))
                continue
            evals += 1
            a_, b_ = np.asarray(rn.data).astype(np.float64), np.asarray(rf.data).astype(np.float64)
            if (rn.k, rn.parity) != (rf.k, rf.parity) or a_.shape != b_.shape or not np.allclose(a_, b_, rtol=1e-5, atol=1e-6):
                viols.append(viol("operator-depends-on-container", f"{nm} on a {dt} image (values 0..3) differs from the same operator on the float32 image: declared ({rn.k},{rn.parity}) vs ({rf.k},{rf.parity}), max diff {float(np.max(np.abs(a_ - b_))) if a_.shape == b_.shape else 'shape'}; D={D} k={kz} idx={pair if nm == 'contract' else lidx}"))
                break
    nontrivial = len(ops) >= 2 and bool(np.any(np.asarray(root.data) != 0))
    return result(ts, viols, nontrivial, evals=evals, obs={"tree_evaluations": evals, "nodes_compared": len(base_trace) * max(1, evals - 4)},
                  hist={"D": D, "ops": ops, "n_ops": min(len(ops), 12), "root_k": root_k, "max_k": max([t[1][0] for t in base_trace] + [0]), "shape": "cube" if len(set(sp)) == 1 else "non-square", "flags": "uniform" if len(set(torus)) == 1 else "mixed"}, sample={"tree": ts, "leaves": g_.leaves[:6]})


def finalize(tier, results, obs, hist, metas):
    seen = set(hist.get("ops", {}))
    problems = [] if set(OPS) <= seen else [f"grammar operators never generated: {sorted(set(OPS) - seen)}"]
    calls = {}
    for m in metas:
        for k, v in (m.get("monitor") or {}).items():
            calls[k] = calls.get(k, 0) + v
    return {"operator_probe_calls": calls}, problems


def teardown(ctx):
    return {"monitor": dict(_calls)}
