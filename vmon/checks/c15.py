"""C15 — time-series windowing yields exactly the causal (past, future) pairs.

R/H monitor: forwarding recorders on data.time_series_idxs / times_series_to_multi_images /
batch_time_series; each concrete return is compared with the window table of the statement applied to
the *recorded inputs*; frames carry unique ids (type, channel, time, pixel, component), so a misplaced
frame is detected exactly and named (exact comparison without pooling). Operand variety: NumPy-backed fields, keyword /
default call forms, int32 dynamic fields next to non-integer constants, downsample 0..3; checkify index-check diagnostic."""
from __future__ import annotations

import itertools as it

import numpy as np

from .. import probes
from ..ref import misc as rmisc
from ..util import scribble, err_exact, result, rng_for, small, viol

ID = "C15"
RULE = (
    "cases = tuples (T<=12, past<=4, future<=3, dt<=3, skip<=3) with >=1 window (complete sweep in thorough, seeded "
    "subset in quick) x dynamic signatures (several channels/types) x constant signatures (none/one/two types) x "
    "downsample 0..1 x trajectory batch 1..3; unique-id frames. Non-trivial: dt>1 or skip>0 or future>1; distinct by tuple+layout."
)
RULE += " Also: downsample 0..3, long trajectories, NumPy-backed fields, keyword / default call forms, int32 dynamic fields next to non-integer float32 constants (exact comparison without pooling), checkify index checks."
EXHAUSTIVE = {"quick": False, "thorough": True}
ASSUMPTIONS = ["window table vmon/ref/misc.py:windows written from the statement", "2x2 block mean as the downsample reference"]
ANCHORS = ["ginjax.data:time_series_idxs", "ginjax.data:times_series_to_multi_images", "ginjax.data:batch_time_series"]
MIN_NONTRIVIAL = {"quick": 100, "thorough": 500}
WORKERS = {"quick": 8, "thorough": 16}
TIMEOUT = {"quick": 900, "thorough": 3600}
TCODE = {(0, 0): 1, (0, 1): 2, (1, 0): 3, (1, 1): 4, (2, 0): 5}

DYN = [
    [((0, 0), 1)],
    [((0, 0), 2), ((1, 0), 1)],
    [((1, 0), 2), ((0, 1), 1), ((0, 0), 1)],
    [((1, 1), 1), ((2, 0), 1)],
]
CONST = [[], [((0, 0), 1)], [((0, 0), 2), ((1, 0), 1)], [((0, 1), 1)]]


def all_tuples():
    out = []
    for T in range(2, 13):
        for p in range(1, 5):
            for f in range(1, 4):
                for dt in range(1, 4):
                    for s in range(0, 4):
                        if T - s - (p + f - 1) * dt >= 1:
                            out.append((T, p, f, dt, s))
    return out


def cases(tier, seed):
    tuples = all_tuples()
    rng = np.random.default_rng([seed, 15])
    if tier == "quick":
        idx = rng.choice(len(tuples), size=200, replace=False)
        tuples = [tuples[i] for i in sorted(idx)]
    out = [{"T": t[0], "p": t[1], "f": t[2], "dt": t[3], "s": t[4], "layout": 0} for t in tuples]
    # a few long trajectories and large step counts (beyond the swept bound; realistic sizes)
    out += [{"T": T, "p": p, "f": f, "dt": dt, "s": s_, "layout": 2} for (T, p, f, dt, s_) in ((60, 4, 3, 3, 2), (48, 8, 6, 2, 5), (40, 1, 1, 7, 0), (40, 5, 2, 4, 9), (25, 6, 6, 1, 1), (64, 10, 10, 3, 3))]
    if tier == "thorough":  # every tuple with a second, independently drawn signature/constant/downsample/batch layout
        out += [{"T": t[0], "p": t[1], "f": t[2], "dt": t[3], "s": t[4], "layout": 1} for t in tuples]
    return out


def expected(dyn, const, D, T, p, f, s, dt, downsample):
    """NumPy expected (X blocks, Y blocks, order) from the recorded inputs."""
    n, inp, tgt = rmisc.windows(T, p, f, dt, s)
    X, Y = {}, {}
    for (k, par), v in dyn.items():
        v = np.asarray(v, dtype=np.float64)
        c = v.shape[0] // T
        fr = v.reshape((c, T) + v.shape[1:])
        x = np.stack([np.stack([fr[ci, inp[w]] for ci in range(c)]) for w in range(n)])  # (n,c,p,...)
        y = np.stack([np.stack([fr[ci, tgt[w]] for ci in range(c)]) for w in range(n)])
        X[(k, par)] = x.reshape((n, c * p) + v.shape[1:])
        Y[(k, par)] = y.reshape((n, c * f) + v.shape[1:])
    for (k, par), v in const.items():
        v = np.asarray(v, dtype=np.float64)
        tiled = np.broadcast_to(v, (n,) + v.shape)
        X[(k, par)] = np.concatenate([X[(k, par)], tiled], axis=1) if (k, par) in X else tiled.copy()
    for _ in range(downsample):
        X = {t: pool2(v, D, t[0]) for t, v in X.items()}
        Y = {t: pool2(v, D, t[0]) for t, v in Y.items()}
    return X, Y


def pool2(v, D, k):
    sp_axes = list(range(2, 2 + D))
    out = v
    for ax in sp_axes:
        shp = list(out.shape)
        shp[ax : ax + 1] = [shp[ax] // 2, 2]
        out = out.reshape(shp).mean(axis=ax + 1)
    return out


class WindowMonitor:
    def __init__(self):
        self.viol = []
        self.checked = {"idxs": 0, "single": 0, "batch": 0}
        self.log = probes.EventLog()
        self.log.enabled = False

    def install(self):
        import ginjax.data as data

        probes.install_function(data, "time_series_idxs", "data.time_series_idxs", self.log, self._on_idxs)
        probes.install_function(data, "times_series_to_multi_images", "data.times_series_to_multi_images", self.log, lambda ev: self._on_series(ev, False))
        probes.install_function(data, "batch_time_series", "data.batch_time_series", self.log, lambda ev: self._on_series(ev, True))
        return self

    def _on_idxs(self, ev):
        names = ("past_steps", "future_steps", "delta_t", "total_steps")
        d = dict(zip(names, ev["args"]))
        d.update(ev["kwargs"])
        self.checked["idxs"] += 1
        n, inp, tgt = rmisc.windows(d["total_steps"], d["past_steps"], d["future_steps"], d["delta_t"], 0)
        gi, go = (np.asarray(v) for v in ev["out"])
        if gi.tolist() != inp or go.tolist() != tgt:
            self.viol.append(viol("window-index-table", f"time_series_idxs{tuple(d.values())}: inputs {gi.tolist()[:3]}.. targets {go.tolist()[:3]}.. expected {inp[:3]}.. / {tgt[:3]}..", **d))

    def _on_series(self, ev, batched):
        names = ("dynamic_fields", "constant_fields", "total_steps", "past_steps", "future_steps", "skip_initial", "delta_t", "downsample")
        d = {"skip_initial": 0, "delta_t": 1, "downsample": 0}
        d.update(dict(zip(names, ev["args"])))
        d.update(ev["kwargs"])
        dyn, const = d["dynamic_fields"], d["constant_fields"]
        D = dyn.D
        T, p, f, s, dt, ds = (d[k] for k in ("total_steps", "past_steps", "future_steps", "skip_initial", "delta_t", "downsample"))
        gx, gy = ev["out"]
        GX, GY = probes.blocks(gx), probes.blocks(gy)
        self.checked["batch" if batched else "single"] += 1
        cfg = dict(T=T, p=p, f=f, s=s, dt=dt, downsample=ds, batched=batched, dyn={str(k): list(np.shape(v)) for k, v in dyn.items()}, const={str(k): list(np.shape(v)) for k, v in const.items()})
        DB, CB = probes.blocks(dyn), probes.blocks(const)
        if batched:
            nb = next(iter(DB.values())).shape[0]
            parts = [expected({t: v[b] for t, v in DB.items()}, {t: v[b] for t, v in CB.items()}, D, T, p, f, s, dt, ds) for b in range(nb)]
            EX = {t: np.concatenate([pp[0][t] for pp in parts], axis=0) for t in parts[0][0]}
            EY = {t: np.concatenate([pp[1][t] for pp in parts], axis=0) for t in parts[0][1]}
        else:
            EX, EY = expected(DB, CB, D, T, p, f, s, dt, ds)
        n_expected = (T - s - (p + f - 1) * dt) * (nb if batched else 1)
        for nm, G_, E_ in (("input", GX, EX), ("target", GY, EY)):
            if set(G_) != set(E_):
                mech = "constant-in-target" if (nm == "target" and set(G_) - set(E_)) else "window-type-set"
                self.viol.append(viol(mech, f"{nm} types {sorted(G_)} != expected {sorted(E_)}; {cfg}", **cfg))
                return
            for t in E_:
                if G_[t].shape[0] != n_expected:
                    self.viol.append(viol("window-sample-count", f"{nm} block {t}: {G_[t].shape[0]} samples, the statement gives {n_expected}; {cfg}", **cfg))
                    return
                # without pooling the operation only moves data: unique ids are compared exactly (a relative tolerance would
                # hide a constant 900000.25 that came back as 900000); pooled frames are averages and get a rounding tolerance
                if G_[t].shape != E_[t].shape or (not np.array_equal(G_[t], E_[t]) if ds == 0 else err_exact(G_[t], E_[t]) > 1e-5):
                    where = ""
                    if G_[t].shape == E_[t].shape:
                        bad = np.argwhere(np.abs(G_[t] - E_[t]) > (0 if ds == 0 else 1e-5 * max(1.0, np.max(np.abs(E_[t])))))
                        w, ch = int(bad[0][0]), int(bad[0][1])
                        where = f" first wrong frame: sample {w}, channel slot {ch}: got {small(G_[t][w, ch], 3)}, expected {small(E_[t][w, ch], 3)}"
                    self.viol.append(viol("window-frame-misplaced", f"{nm} block {t} differs from the window table (shape {G_[t].shape} vs {E_[t].shape}).{where}; {cfg}", **cfg))
                    return
        if gx.D != D or gy.D != D or tuple(gx.is_torus) != tuple(dyn.is_torus):
            self.viol.append(viol("window-metadata", f"D/is_torus changed; {cfg}", **cfg))

    def take(self):
        v, self.viol = self.viol, []
        return v


_mon = None


def setup(ctx):
    global _mon
    import ginjax.data  # noqa: F401

    _mon = WindowMonitor().install()
    return rmisc.selftest()


def frames(D, sp, sig, T, tag):
    out = {}
    npix = int(np.prod(sp))
    for (k, par), c in sig:
        ncomp = D**k
        ids = np.zeros((c, T, npix, ncomp))
        for ci in range(c):
            for t in range(T):
                fid = (TCODE[(k, par)] * 5 + ci) * 70 + t + tag * 2500
                ids[ci, t] = (fid * 64 + (np.arange(npix)[:, None] % 64)) * 9 + np.arange(ncomp)[None, :]
        out[(k, par)] = ids.reshape((c * T,) + sp + (D,) * k).astype(np.float32)
    return out


def run(case, ctx):
    import jax
    import jax.numpy as jnp
    import ginjax.data as data
    import ginjax.geometric as geom

    rng = rng_for(ctx["seed"], ID, case["i"])
    T, p, f, dt, s = (case[k] for k in ("T", "p", "f", "dt", "s"))
    D = int(rng.choice([2, 2, 3]))
    ds = int(rng.choice([0, 0, 1, 1, 2, 3])) if D == 2 else int(rng.choice([0, 0, 1, 1, 2]))
    sp = tuple(int(v) * (2**ds) for v in (rng.integers(1, 3, size=D) if ds < 3 else rng.choice([1, 3], size=D)))
    dyn_sig = DYN[int(rng.integers(len(DYN)))]
    const_sig = CONST[int(rng.integers(len(CONST)))]
    if D == 3:
        dyn_sig = [(t, c) for t, c in dyn_sig if t[0] <= 1] or [((0, 0), 1)]
    nb = int(rng.integers(1, 4))
    torus = tuple(bool(v) for v in rng.integers(0, 2, size=D))
    key = {**{k: case[k] for k in ("T", "p", "f", "dt", "s")}, "D": D, "ds": ds, "dyn": dyn_sig, "const": const_sig, "nb": nb, "layout": case.get("layout", 0)}
    viols, evals = [], 0
    oob = [0]
    scrib = [0]
    outs = []
    _mon.take()
    try:
        ii, oo = data.time_series_idxs(p, f, dt, T - s)
        evals += 1
        # no target time is an input time of the same sample
        for a, b in zip(np.asarray(ii).tolist(), np.asarray(oo).tolist()):
            if set(a) & set(b):
                viols.append(viol("target-time-is-input-time", f"sample with input times {a} and target times {b}"))
                break
        # hostile caller: the index tables now belong to the caller, who shifts them in place (`in_idxs += s`); if they are
        # the library's own (memoised) arrays, every later call of this process is checked against the window table
        scrib[0] += scribble((ii, oo))
        trajs = []
        for b in range(nb):
            dynb = frames(D, sp, dyn_sig, T, b)
            constb = {t: (900000 + b * 1000 + TCODE[t] * 100 + np.arange(c * int(np.prod(sp)) * D ** t[0])).reshape((c,) + sp + (D,) * t[0]).astype(np.float32) for t, c in const_sig}
            trajs.append((dynb, constb))
        # operand representation / call form variety: NumPy-backed fields (as read from disk), keyword arguments, defaults
        # left out when they equal the default
        # dtype variety: raw integer dynamic fields (int32) next to non-integer float32 constants - the constants must come
        # through unchanged (no pooling in this variant: integer pooling is outside the statement)
        if case["i"] % 5 == 3 and ds == 0:
            trajs = [({t: v.astype(np.int32) for t, v in d_.items()}, {t: (v + 0.25).astype(np.float32) for t, v in c_.items()}) for d_, c_ in trajs]
            key["dtypes"] = "int32 dynamic / float32 non-integer constants"
        conv = (lambda v: v) if case["i"] % 5 == 1 else jnp.asarray
        dyn0 = geom.MultiImage({t: conv(v) for t, v in trajs[0][0].items()}, D, torus)
        const0 = geom.MultiImage({t: conv(v) for t, v in trajs[0][1].items()}, D, torus)
        form = case["i"] % 3
        if form == 1:
            x1, y1 = data.times_series_to_multi_images(dyn0, const0, T, p, f, skip_initial=s, delta_t=dt, downsample=ds)
        elif form == 2:
            kw = {k_: v_ for k_, v_, d_ in (("skip_initial", s, 0), ("delta_t", dt, 1), ("downsample", ds, 0)) if v_ != d_}
            x1, y1 = data.times_series_to_multi_images(dyn0, const0, T, p, f, **kw)
        else:
            x1, y1 = data.times_series_to_multi_images(dyn0, const0, T, p, f, s, dt, ds)
        evals += 1
        # sanitizer-style diagnostic: JAX clamps out-of-range gathers silently; checkify makes them observable
        if case["i"] % 4 == 0:
            from jax.experimental import checkify

            err, _ = checkify.checkify(lambda a, b: data.times_series_to_multi_images.__wrapped__(a, b, T, p, f, s, dt, ds), errors=checkify.index_checks)(jax.tree_util.tree_map(jnp.asarray, dyn0), jax.tree_util.tree_map(jnp.asarray, const0))
            oob[0] += 1
            if err.get() is not None:
                viols.append(viol("window-out-of-bounds-gather", f"checkify: {str(err.get())[:200]}; {key}"))
        dynB = geom.MultiImage({t: conv(np.stack([tr[0][t] for tr in trajs])) for t in trajs[0][0]}, D, torus)
        constB = geom.MultiImage({t: conv(np.stack([tr[1][t] for tr in trajs])) for t in trajs[0][1]}, D, torus)
        xb, yb = data.batch_time_series(dynB, constB, T, p, f, s, dt, ds)
        evals += 1
        # batched == per-trajectory stacked trajectory-major (first trajectory block)
        n = T - s - (p + f - 1) * dt
        outs = [x1, y1, xb, yb]
        for t in x1.keys():
            if err_exact(np.asarray(xb[t])[:n], np.asarray(x1[t])) > 1e-6:
                viols.append(viol("batched-not-stacked", f"batch_time_series block {t}: first trajectory's samples differ from the per-trajectory result"))
    except Exception as e:
        import traceback

        viols.append(viol(f"windowing-exception-{type(e).__name__}", f"{type(e).__name__}: {str(e)[:200]}; {key}; {traceback.format_exc()[-300:]}"))
    viols += _mon.take()
    scrib[0] += scribble(outs)  # inputs are rebuilt from scratch by the next case
    nontrivial = dt > 1 or s > 0 or f > 1
    return result(key, viols, nontrivial, evals=evals, obs={"monitored_returns": evals, "checkify_index_checked_calls": oob[0], "returned_arrays_overwritten_by_caller": scrib[0]},
                  hist={"D": D, "downsample": ds, "dt": dt, "skip": s, "past": p, "future": f, "const_types": len(const_sig), "batch": nb}, sample={"key": key})


def finalize(tier, results, obs, hist, metas):
    mon = {}
    for m in metas:
        for k, v in (m.get("monitor") or {}).items():
            mon[k] = mon.get(k, 0) + v
    problems = [] if all(mon.get(k, 0) > 0 for k in ("idxs", "single", "batch")) else ["a windowing probe never fired on a concrete call"]
    return {"monitor_counts": mon}, problems


def teardown(ctx):
    return {"monitor": dict(_mon.checked)}
