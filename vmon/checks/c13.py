"""C13 — re-layouts and serialisations are lossless round trips.

H-monitor with unique-id payloads: random *nested* chains of (open, close) re-layout pairs are applied to
a multi-image whose every scalar is a distinct id; after the chain the state must be bitwise the initial
one by type (with D, is_torus and key set), every intermediate pure re-layout must hold each id exactly
once, and the scalar layout is compared with the reference layout channel*D^k+component. Class-level
recorders count the re-layout methods reached; the icontract structural invariant on MultiImage is
evaluated at every public method exit (deciding here). Every re-layout that does not pass through jax's pytree
flattening must also hand back the blocks in the storage order it received (per-operation contract). Payloads: float32,
int32, float64 under x64. Save/load: outputs bit for bit, templates differing in non-array leaves, and the checkpoints
written by ml.train(save_model=...) against the model of their epoch."""
from __future__ import annotations

import os
import shutil
import tempfile

import numpy as np

from .. import mlgen, monitors, probes
from ..ref import misc as rmisc
from ..util import result, rng_for, viol

ID = "C13"
RULE = (
    "cases = random nested chains (depth <=4 quick / <=8 thorough) of inverse pairs: vectorise/de-vectorise, "
    "to/from scalar layout, concat/concat_inverse on any leading axis (types only in a / only in b / in both), "
    "expand/combine_axes, expand/merge_axes, reshape_pmap/merge_axes, from_images/to_images, copy (+independence), "
    "jit/vmap/tree_flatten identity (MultiImage and GeometricImage); signatures any subset/order of k<=3, p in {0,1}, "
    "channels 1..4, D in 1..3, non-square, 0-3 leading axes; unique ids. Save/load cases: model class x equivariant flag. "
    "Non-trivial: chain length >=2, or k>=2 with >=2 leading axes, or a save/load case; distinct by (signature, layout, chain)."
)
RULE += " Also: per-operation storage-order contract for re-layouts that do not pass through pytree flattening; payloads float32 / int32 / float64 under x64 / mixed per block (int32 next to non-integer float32); reused jitted identity; save/load templates differing in non-array leaves; checkpoints of ml.train(save_model=...)."
ASSUMPTIONS = ["ids < 2^24 are exact in float32", "reference scalar layout vmon/ref/misc.py"]
ANCHORS = [
    "ginjax.geometric.multi_image:MultiImage.to_vector", "ginjax.geometric.multi_image:MultiImage.from_vector",
    "ginjax.geometric.multi_image:MultiImage.to_scalar_multi_image", "ginjax.geometric.multi_image:MultiImage.from_scalar_multi_image",
    "ginjax.geometric.multi_image:MultiImage.concat", "ginjax.geometric.multi_image:MultiImage.concat_inverse", "ginjax.geometric.multi_image:MultiImage.append",
    "ginjax.geometric.multi_image:MultiImage.expand", "ginjax.geometric.multi_image:MultiImage.combine_axes", "ginjax.geometric.multi_image:MultiImage.merge_axes",
    "ginjax.geometric.multi_image:MultiImage.reshape_pmap", "ginjax.geometric.multi_image:MultiImage.from_images", "ginjax.geometric.multi_image:MultiImage.to_images",
    "ginjax.geometric.multi_image:MultiImage.tree_flatten", "ginjax.geometric.multi_image:MultiImage.tree_unflatten",
    "ginjax.geometric.geometric_image:GeometricImage.tree_flatten", "ginjax.ml.training:save", "ginjax.ml.training:load",
]
MIN_NONTRIVIAL = {"quick": 100, "thorough": 1500}
WORKERS = {"quick": 8, "thorough": 16}
TIMEOUT = {"quick": 900, "thorough": 5400}

MODEL_CASES = [
    ("ConvBlock", True), ("ResNet", True), ("UNet", True), ("DilResNet", True),
    ("ConvBlock", False), ("ResNet", False), ("UNet", False), ("DilResNet", False),
]


def cases(tier, seed):
    n = 500 if tier == "quick" else 8000
    out = [{"kind": "chain", "n": i} for i in range(n)]
    reps = 1 if tier == "quick" else 4
    for r in range(reps):
        for name, eq in MODEL_CASES:
            out.append({"kind": "saveload", "model": name, "equivariant": eq, "rep": r})
    # checkpoints written by the training loop itself (ml.train(save_model=...)): what is on disk after training is the
    # model of the last multiple-of-ten epoch, bit for bit
    for r in range(2 if tier == "quick" else 8):
        out.append({"kind": "checkpoint", "rep": r})
    return out


_struct = None
_JIT_ID = None
_counts = {}
METHODS = ["to_vector", "to_scalar_multi_image", "from_scalar_multi_image", "concat", "concat_inverse", "expand", "combine_axes", "merge_axes", "reshape_pmap", "to_images", "copy", "get_signature", "append"]


def setup(ctx):
    global _struct
    import ginjax.geometric  # noqa: F401
    from ginjax.geometric.multi_image import MultiImage

    log = probes.EventLog()
    log.enabled = False
    for m in METHODS:
        probes.wrap_method(MultiImage, m, f"MultiImage.{m}", log)
    globals()["_log"] = log
    _struct = monitors.StructureMonitor().install()
    return rmisc.selftest()


def snapshot(mi):
    return {"blocks": {t: np.asarray(v).copy() for t, v in mi.data.items()}, "D": mi.D, "torus": tuple(mi.is_torus), "dtypes": {t: str(v.dtype) for t, v in mi.data.items()}}


def same_state(mi, snap, what):
    if mi.D != snap["D"] or tuple(mi.is_torus) != snap["torus"]:
        return f"{what}: D/is_torus changed ({mi.D},{mi.is_torus}) vs ({snap['D']},{snap['torus']})"
    if set(mi.keys()) != set(snap["blocks"]):
        return f"{what}: key set {sorted(mi.keys())} vs {sorted(snap['blocks'])}"
    for t, v in snap["blocks"].items():
        g = np.asarray(mi[t])
        if g.shape != v.shape:
            return f"{what}: block {t} shape {g.shape} vs {v.shape}"
        if not np.array_equal(g, v):
            j = int(np.argwhere(g.reshape(-1) != v.reshape(-1))[0][0])
            return f"{what}: block {t} differs at flat index {j}: id {g.reshape(-1)[j]} where {v.reshape(-1)[j]} was put in"
        if str(g.dtype) != snap["dtypes"][t] and not snap["dtypes"][t].startswith("int"):  # integer payloads may legitimately come back as float32
            return f"{what}: block {t} came back as {g.dtype}, was {snap['dtypes'][t]}"
    return None


def ids_multiset(mi):
    return np.sort(np.concatenate([np.asarray(v).reshape(-1) for v in mi.values()])) if len(mi.data) else np.zeros(0)


def run(case, ctx):
    if case["kind"] == "chain":
        return run_chain(case, ctx)
    if case["kind"] == "checkpoint":
        return run_checkpoint(case, ctx)
    return run_saveload(case, ctx)


def run_checkpoint(case, ctx):
    import contextlib
    import io

    import jax
    import jax.numpy as jnp
    import optax
    import ginjax.geometric as geom
    import ginjax.ml as ml

    rng = rng_for(ctx["seed"], ID, case["i"])
    D, N, L = 2, 4, 4
    name = ["ConvBlock", "ResNet"][case["rep"] % 2]
    epochs = int([10, 12, 20, 23][case["rep"] % 4])
    key = {"kind": "checkpoint", "model": name, "epochs": epochs}
    viols = []
    tmp = tempfile.mkdtemp(prefix="vmon_c13_")
    try:
        model, in_sig = make_model(name, True, D, np.random.default_rng([ctx["seed"], case["i"]]), 77 + case["rep"])
        template, _ = make_model(name, True, D, np.random.default_rng([ctx["seed"], case["i"]]), 991 + case["rep"])
        X = geom.MultiImage({t: jnp.asarray(rng.normal(size=(L, c, N, N) + (D,) * t[0]).astype(np.float32)) for t, c in in_sig}, D, True)
        with contextlib.redirect_stdout(io.StringIO()):
            Y = jax.vmap(lambda xi: model(xi)[0])(X)
        Y = geom.MultiImage({t: v + 0.3 for t, v in Y.items()}, D, True)
        seen = {}

        class Recorder(ml.EpochStop):
            def stop(self, model, current_epoch, train_loss, val_loss, epoch_time):
                seen[int(current_epoch)] = model
                return super().stop(model, current_epoch, train_loss, val_loss, epoch_time)

        def map_and_loss(m, x, y, aux):
            return ml.smse_loss(jax.vmap(lambda xi: m(xi)[0])(x), y), aux

        path = os.path.join(tmp, "ckpt.eqx")
        with contextlib.redirect_stdout(io.StringIO()):
            ml.train(X, Y, map_and_loss, model, jax.random.PRNGKey(case["i"]), Recorder(epochs, verbose=0), 2, optax.sgd(1e-3), save_model=path)
        last = (epochs // 10) * 10
        if not os.path.exists(path):
            viols.append(viol("checkpoint-missing", f"ml.train(save_model=...) ran {epochs} epochs and wrote no file; {key}"))
        elif last not in seen:
            viols.append(viol("harness-no-model-recorded", f"stop() was never called with epoch {last} (harness problem); {sorted(seen)}"))
        else:
            loaded = ml.load(path, template)
            want = [np.asarray(v) for v in jax.tree_util.tree_leaves(seen[last]) if hasattr(v, "shape")]
            got = [np.asarray(v) for v in jax.tree_util.tree_leaves(loaded) if hasattr(v, "shape")]
            if len(want) != len(got) or any(a.shape != b.shape or not np.array_equal(a, b) for a, b in zip(want, got)):
                others = [e for e in sorted(seen) if e != last and len(jax.tree_util.tree_leaves(seen[e])) == len(got) and all(np.array_equal(np.asarray(a), np.asarray(b)) for a, b in zip([v for v in jax.tree_util.tree_leaves(seen[e]) if hasattr(v, "shape")], got))]
                viols.append(viol("checkpoint-not-the-model-of-its-epoch", f"the file written by ml.train after {epochs} epochs does not hold the parameters of epoch {last} (matches epochs {others}); {key}"))
            x1 = X.get_one(0, keepdims=False)
            ya, yc = seen[last](x1)[0], loaded(x1)[0]
            if any(not np.array_equal(np.asarray(ya[t]), np.asarray(yc[t])) for t in ya.keys()):
                viols.append(viol("save-load-output-differs", f"checkpoint of epoch {last} loaded into a same-structured model gives different outputs; {key}"))
    except Exception as e:
        import traceback

        viols.append(viol(f"checkpoint-exception-{type(e).__name__}", f"{type(e).__name__}: {str(e)[:300]}; {traceback.format_exc()[-500:]}"))
    finally:
        shutil.rmtree(tmp, ignore_errors=True)
    return result(key, viols, True, evals=2, obs={"training_checkpoints": 1}, hist={"saveload_model": f"{name}/checkpoint", "saveload_variant": "train-checkpoint"}, sample={"key": key})


REPS = ("float32", "float32", "float32", "int32", "float64-x64", "mixed")
# operations that do not pass through jax's pytree flattening: they hand back the blocks in the storage order they received
# (jit / vmap / tree_flatten sort the blocks and are held to "by type" only, as the statement says)
ORDER_OPS = ("vector", "copy", "to_scalar", "expand_combine", "expand_merge", "pmap", "images")


def run_chain(case, ctx):
    import contextlib
    import jax

    # payload representation: float32 ids (default), int32 ids, float64 ids in x64 mode that do not fit float32
    rep = REPS[case["i"] % len(REPS)]
    with (jax.enable_x64() if rep == "float64-x64" else contextlib.nullcontext()):
        return _run_chain(case, ctx, rep)


def _run_chain(case, ctx, rep):
    import jax
    import jax.numpy as jnp
    import ginjax.geometric as geom

    rng = rng_for(ctx["seed"], ID, case["i"])
    D = int(rng.choice([1, 2, 2, 3]))
    n_lead = int(rng.integers(0, 4))
    lead_sizes = [2, 3, 4, 5, 6, 7]
    lead = tuple(int(v) for v in rng.choice(lead_sizes, size=max(0, n_lead - 1), replace=False))
    sp = tuple(int(v) for v in rng.choice([1, 2, 3], size=D, replace=(D > 2)))
    types = [(k, p) for k in range(0, 4 if D == 2 else (3 if D == 3 else 1)) for p in (0, 1)]
    nt = int(rng.integers(1, min(4, len(types)) + 1))
    chosen = [types[i] for i in rng.choice(len(types), size=nt, replace=False)]
    torus = tuple(bool(v) for v in rng.integers(0, 2, size=D))
    blocks, nid = {}, 1
    sig = []
    for (k, p) in chosen:
        c = int(rng.integers(1, 5))
        shp = (lead + (c,) if n_lead >= 1 else ()) + sp + (D,) * k
        n = int(np.prod(shp))
        base = (2.0**31 + 0.5) if rep == "float64-x64" else 0
        if rep == "mixed":
            # blocks of different dtypes in one multi-image: the first block an int32 mask, the others float32 fields with
            # non-integer values (ids + 0.5 stay exact in float32); every value must come back, whatever the container promotes to
            blocks[(k, p)] = jnp.asarray((nid + np.arange(n) + (0.0 if not blocks else 0.5)).reshape(shp).astype(np.int32 if not blocks else np.float32))
            nid += n
            sig.append(((k, p), c))
            continue
        blocks[(k, p)] = jnp.asarray((base + nid + np.arange(n)).reshape(shp).astype({"int32": np.int32, "float64-x64": np.float64}.get(rep, np.float32)))
        nid += n
        sig.append(((k, p), c))
    if nid >= 2**24:
        return {"status": "skipped", "key": "too-large", "nontrivial": False}
    mi = geom.MultiImage(blocks, D, torus)
    snap0 = snapshot(mi)
    all_ids = ids_multiset(mi)
    depth = int(rng.integers(1, (4 if ctx["tier"] == "quick" else 8) + 1))
    viols, chain = [], []
    stack = []
    _struct.take()
    evals = 0
    inv0 = _struct.evaluations
    try:
        cur = mi
        for _ in range(depth):
            op = pick_op(rng, cur)
            if op is None:
                break
            nxt, closer, pure, note = op(cur)
            chain.append(note)
            evals += 1
            if pure and not np.array_equal(ids_multiset(nxt), all_ids) and note.split(":")[0] not in ("concat_split",):
                viols.append(viol("relayout-loses-or-duplicates-id", f"after {chain}: the multiset of ids changed (pure re-layout)"))
                break
            if note.startswith("to_scalar"):
                want = rmisc.to_scalar_layout({t: np.asarray(v) for t, v in cur.data.items()}, cur.D, cur.get_n_leading())
                got = np.asarray(nxt[(0, 0)])
                if list(nxt.keys()) != [(0, 0)] or got.shape != want.shape or not np.array_equal(got, want):
                    viols.append(viol("scalar-layout-position", f"to_scalar_multi_image does not place components at channel*D^k+component (chain {chain}); shape {got.shape} vs {want.shape}"))
                    break
            if note.split(":")[0] in ORDER_OPS and set(nxt.keys()) == set(cur.keys()) and list(nxt.keys()) != list(cur.keys()):
                viols.append(viol("relayout-reorders-blocks", f"{note} returned the blocks in order {list(nxt.keys())}, was {list(cur.keys())} (chain {chain}): the result is not interchangeable with the operand for to_vector / get_component / get_signature"))
                break
            stack.append((closer, snapshot(cur), note))
            cur = nxt
        while stack and not viols:
            closer, snap, note = stack.pop()
            before_keys = list(cur.keys())
            cur = closer(cur)
            evals += 1
            want_keys = [t for t, _ in eval(note.split(":", 1)[1])] if note.startswith("to_scalar") else (list(snap["blocks"].keys()) if note in ("vector", "images") else before_keys)
            if note.split(":")[0] in ORDER_OPS and set(cur.keys()) == set(want_keys) and list(cur.keys()) != want_keys:
                viols.append(viol("relayout-reorders-blocks", f"closing {note} returned the blocks in order {list(cur.keys())}, expected {want_keys} (chain {chain}): what comes back is not interchangeable with what was put in (to_vector / get_component / get_signature read the storage order)"))
                break
            msg = same_state(cur, snap, f"closing {note} (chain {chain})")
            if msg:
                viols.append(viol("round-trip-" + note.split(":")[0], msg, chain=chain))
        if not viols:
            msg = same_state(cur, snap0, f"end of chain {chain}")
            if msg:
                viols.append(viol("round-trip-chain", msg, chain=chain))
    except RoundTripError as e:
        viols.append(viol("round-trip-jit-reused" if "jit identity" in str(e) else "round-trip-concat_split", str(e)[:500], chain=chain))
    except Exception as e:
        import traceback

        viols.append(viol(f"relayout-exception-{type(e).__name__}", f"{type(e).__name__}: {str(e)[:200]} in chain {chain} on sig={sig} n_lead={n_lead} D={D}; {traceback.format_exc()[-400:]}", chain=chain))
    # GeometricImage pytree identity
    if D > 1 or chosen[0][0] == 0:
        k, p = chosen[0]
        one = np.asarray(blocks[(k, p)]).reshape((-1,) + sp + (D,) * k)[0]
        gi = geom.GeometricImage(jnp.asarray(one), p, D, torus)
        gj = jax.jit(lambda z: z)(gi)
        if not (gj.D == D and gj.k == k and gj.parity == p and tuple(gj.is_torus) == torus and np.array_equal(np.asarray(gj.data), one)):
            viols.append(viol("geometric-image-pytree", f"GeometricImage changed through jit: k={k} p={p} torus={torus} -> ({gj.k},{gj.parity},{gj.is_torus})"))
        evals += 1
    sv = _struct.take()
    viols += sv[:2]
    nontrivial = len(chain) >= 2 or (n_lead >= 2 and any(k >= 2 for k, _ in chosen))
    return result({"D": D, "n_lead": n_lead, "lead": lead, "sp": sp, "sig": sig, "chain": chain}, viols, nontrivial, evals=evals,
                  obs={"relayout_steps": evals, "invariant_evaluations": _struct.evaluations - inv0}, hist={"D": D, "rep": rep, "n_lead": n_lead, "ops": [c.split(":")[0] for c in chain], "ntypes": nt, "kmax": max(k for k, _ in chosen)}, sample={"sig": sig, "lead": lead, "sp": sp, "chain": chain})


def pick_op(rng, cur):
    import jax
    import jax.numpy as jnp
    import ginjax.geometric as geom

    nl = cur.get_n_leading()
    D = cur.D
    cands = ["vector", "copy", "jit", "flatten"]
    first_sizes = {v.shape[0] for v in cur.values()} if nl >= 1 else set()
    batch_agree = nl >= 1 and len({tuple(v.shape[: nl - 1]) for v in cur.values()}) == 1
    if nl >= 1:
        cands += ["to_scalar" if batch_agree else "copy", "concat_split", "concat_split", "expand_combine", "expand_merge", "vmap" if len(first_sizes) == 1 else "jit"]
        if nl == 1:
            cands.append("images")
        if len(first_sizes) == 1:
            cands.append("pmap")
    name = cands[int(rng.integers(len(cands)))]
    if name == "vector":
        def op(m):
            vec = m.to_vector()
            holder = {"vec": vec, "tmpl": m}
            # an "opened" state that is not a MultiImage: represent it by the same multi-image (pure)
            return m, (lambda z: geom.MultiImage.from_vector(holder["vec"], holder["tmpl"])), True, "vector"
        return op
    if name == "copy":
        def op(m):
            c = m.copy()
            # independence: mutating the copy must leave the original alone
            t = next(iter(c.keys()))
            before = np.asarray(m[t]).copy()
            c[t] = c[t] * 0 - 1
            if not np.array_equal(np.asarray(m[t]), before):
                raise AssertionError("copy is not independent of the original")
            return m.copy(), (lambda z: z), True, "copy"
        return op
    if name == "jit":
        global _JIT_ID
        if _JIT_ID is None:
            _JIT_ID = jax.jit(lambda z: z)  # reused for every state of this process: the jit cache is keyed by the pytree structure

        def op(m):
            # the same content in reversed storage order goes through the same cached callable first
            rev = geom.MultiImage({t: m[t] for t in list(m.keys())[::-1]}, m.D, m.is_torus)
            r = _JIT_ID(rev)
            if set(r.keys()) != set(m.keys()) or any(not np.array_equal(np.asarray(r[t]), np.asarray(m[t])) for t in m.keys()):
                raise RoundTripError("jit identity (reused callable) returned a block under another type for the reversed storage order")
            return _JIT_ID(m), (lambda z: z), True, "jit"
        return op
    if name == "vmap":
        return lambda m: (jax.vmap(lambda z: z)(m), (lambda z: z), True, "vmap")
    if name == "flatten":
        def op(m):
            leaves, td = jax.tree_util.tree_flatten(m)
            return jax.tree_util.tree_unflatten(td, leaves), (lambda z: z), True, "flatten"
        return op
    if name == "to_scalar":
        def op(m):
            layout = m.get_signature()
            return m.to_scalar_multi_image(), (lambda z: z.from_scalar_multi_image(layout)), True, f"to_scalar:{layout}"
        return op
    if name == "concat_split":
        def op(m):
            axis = int(rng.integers(0, nl))
            a, b = geom.MultiImage({}, D, m.is_torus), geom.MultiImage({}, D, m.is_torus)
            sigb = {}
            for t, v in m.items():
                n = v.shape[axis]
                mode = ["a", "b", "both"][int(rng.integers(3))] if n > 1 else ["a", "b"][int(rng.integers(2))]
                if mode == "a":
                    a.append(t[0], t[1], v)
                elif mode == "b":
                    b.append(t[0], t[1], v)
                    sigb[t] = n
                else:
                    cut = int(rng.integers(1, n))
                    idx = [slice(None)] * v.ndim
                    idx[axis] = slice(0, cut)
                    a.append(t[0], t[1], v[tuple(idx)])
                    idx[axis] = slice(cut, n)
                    b.append(t[0], t[1], v[tuple(idx)])
                    sigb[t] = n - cut
            if not a.data or not b.data:
                merged = m.copy()
                return merged, (lambda z: z), True, "concat_split:degenerate"
            merged = a.concat(b, axis=axis)
            snap_a, snap_b = snapshot(a), snapshot(b)
            use_dict = bool(rng.integers(0, 2))
            # a type that stays wholly in part a may be absent from the signature or listed with an explicit count of 0 (the
            # signature of a `b` that holds an empty block of that type): both say "nothing of this type goes to b"
            zeros = {t: 0 for t in m.keys() if t not in sigb and rng.integers(0, 2)}

            def closer(z):
                # both documented forms of the signature argument: dict, or a Signature tuple (in a shuffled order)
                full = {**zeros, **sigb}
                sig_arg = full if use_dict else geom.Signature(tuple((t, n) for t, n in sorted(full.items(), reverse=True)))
                a2, b2 = z.concat_inverse(sig_arg, axis=axis)
                for nm, got, sn in (("a", a2, snap_a), ("b", b2, snap_b)):
                    msg = same_state(got, sn, f"concat_inverse part {nm} (axis {axis}, signature {full})")
                    if msg:
                        raise RoundTripError(msg)
                return z
            return merged, closer, True, f"concat_split:axis{axis}"
        return op
    if name in ("expand_combine", "expand_merge"):
        def op(m):
            axis = int(rng.integers(0, nl))
            sizes = [v.shape[axis] for v in m.values()]
            divs = [d for d in (1, 2, 3, 4) if all(s % d == 0 for s in sizes)]
            size = divs[int(rng.integers(len(divs)))]
            if name == "expand_combine":
                return m.expand(axis, size), (lambda z: z.combine_axes((axis, axis + 1))), True, f"expand_combine:axis{axis},size{size}"
            return m.expand(axis, size), (lambda z: z.merge_axes([axis, axis + 1])), True, f"expand_merge:axis{axis},size{size}"
        return op
    if name == "pmap":
        def op(m):
            L = m.get_L()
            nd = [d for d in (1, 2, 3) if L % d == 0]
            n = nd[int(rng.integers(len(nd)))]
            devs = [jax.devices()[0]] * n
            return m.reshape_pmap(devs), (lambda z: z.merge_axes([0, 1])), True, f"pmap:{n}"
        return op
    if name == "images":
        def op(m):
            imgs = m.to_images()
            order = list(m.keys())
            holder = {"imgs": imgs}
            # from_images(images, n_lead_axes, axis): every image gets n_lead_axes unit axes and is appended along `axis`; the
            # default form in one case of two, otherwise a non-default pair - the unit axes are then dropped by the harness
            # (plain indexing of the blocks), so the closer still has to hand back the opening state
            nla, ax = [(1, 0), (1, 0), (2, 0), (2, 1), (3, 2), (3, 0)][int(rng.integers(6))]
            if (nla, ax) == (1, 0):
                return m, (lambda z: geom.MultiImage.from_images(holder["imgs"])), True, "images"

            def closer(z):
                w = geom.MultiImage.from_images(holder["imgs"], n_lead_axes=nla, axis=ax)
                out = {}
                for t, v in w.items():
                    if any(v.shape[j] != 1 for j in range(nla) if j != ax):
                        raise RoundTripError(f"from_images(n_lead_axes={nla}, axis={ax}): block {t} has leading shape {tuple(v.shape[:nla])}, every axis but axis {ax} must have length 1")
                    out[t] = v[tuple(slice(None) if j == ax else 0 for j in range(nla))]
                return geom.MultiImage(out, w.D, w.is_torus)
            return m, closer, True, "images"
        return op
    return None


class RoundTripError(Exception):
    pass


def make_model(name, equivariant, D, rng, key_int):
    import jax
    import ginjax.models as models

    in_sig = mlgen.signature([((0, 0), 1), ((1, 0), 1)])
    out_sig = mlgen.signature([((1, 0), 1), ((0, 0), 2)])
    key = jax.random.PRNGKey(key_int)
    kw = dict(equivariant=equivariant)
    if equivariant:
        bank = mlgen.ref_bank(D, 3, (0, 1, 2), (0,), "B")
        kw.update(conv_filters=bank)
    else:
        kw.update(kernel_size=3)
    if name == "ConvBlock":
        if not equivariant:
            in_s, out_s = mlgen.signature([((0, 0), 3)]), mlgen.signature([((0, 0), 2)])
            return models.ConvBlock(D, in_s, out_s, use_group_norm=True, key=key, **kw), in_s
        return models.ConvBlock(D, in_sig, out_sig, use_group_norm=True, key=key, **kw), in_sig
    if name == "ResNet":
        return models.ResNet(D, in_sig, out_sig, depth=2, num_blocks=1, num_conv=1, key=key, **kw), in_sig
    if name == "DilResNet":
        return models.DilResNet(D, in_sig, out_sig, depth=2, num_blocks=1, use_group_norm=bool(rng.integers(0, 2)), key=key, **kw), in_sig
    if name == "UNet":
        if equivariant:
            kw.update(upsample_filters=mlgen.ref_bank(D, 2, (0, 1, 2), (0,), "B"))
        return models.UNet(D, in_sig, out_sig, depth=2, num_downsamples=1, num_conv=1, use_group_norm=bool(rng.integers(0, 2)), key=key, **kw), in_sig
    raise ValueError(name)


def run_saveload(case, ctx):
    import ginjax.ml as ml

    rng = rng_for(ctx["seed"], ID, case["i"])
    D = 2
    name, eq = case["model"], case["equivariant"]
    key = {"kind": "saveload", "model": name, "equivariant": eq, "rep": case["rep"]}
    viols = []
    tmp = tempfile.mkdtemp(prefix="vmon_c13_")
    try:
        a, in_sig = make_model(name, eq, D, np.random.default_rng([ctx["seed"], case["i"]]), 11 + case["rep"])
        b, _ = make_model(name, eq, D, np.random.default_rng([ctx["seed"], case["i"]]), 1234 + case["rep"])
        a = mlgen.perturb(a, rng, 0.2)
        # "same-structured" means the same pytree structure: the template may differ from the saved model in every leaf,
        # non-array leaves included (normalisation eps stored as a leaf; the inference flag of a wrapper)
        import equinox as eqx
        import jax

        variant = ["plain", "template-eps", "wrapped-inference"][case["rep"] % 3 if case["rep"] else (1 if name in ("ConvBlock", "ResNet") else (2 if name == "UNet" else 0))]
        if variant == "template-eps":
            def other_eps(path, leaf):
                names = [getattr(q, "name", None) for q in path]
                return 1e-2 if (names and names[-1] == "eps" and isinstance(leaf, float)) else leaf
            b = jax.tree_util.tree_map_with_path(other_eps, b)
        elif variant == "wrapped-inference":
            import ginjax.models as models
            from ..ref import group as rgroup

            ops = [np.asarray(g) for g in rgroup.subgroups(D)["C2d"]]
            a = eqx.nn.inference_mode(models.GroupAverage(a, ops), value=True)
            b = models.GroupAverage(b, ops)
        key["variant"] = variant
        x = mlgen.random_multi(rng, in_sig, D, (4, 4), True)
        ya = a(x)[0]
        yb = b(x)[0]
        path = os.path.join(tmp, "model.eqx")
        ml.save(path, a)
        c = ml.load(path, b)
        yc = c(x)[0]
        A, B_, C = probes.blocks(ya, np.float32), probes.blocks(yb, np.float32), probes.blocks(yc, np.float32)
        if set(A) != set(C) or any(not np.array_equal(A[t], C[t]) for t in A):
            viols.append(viol("save-load-output-differs", f"{name} equivariant={eq}: loaded model's output differs from the saved model's in at least one bit"))
        if all(np.array_equal(A[t], B_[t]) for t in A):
            viols.append(viol("save-load-vacuous", f"{name}: template model already had the same outputs (harness problem)"))
    except Exception as e:
        import traceback

        viols.append(viol(f"save-load-exception-{type(e).__name__}", f"{type(e).__name__}: {str(e)[:300]}; {traceback.format_exc()[-500:]}"))
    finally:
        shutil.rmtree(tmp, ignore_errors=True)
    return result(key, viols, True, evals=3, obs={"save_load_round_trips": 1}, hist={"saveload_model": f"{name}/{'eq' if eq else 'conv'}", "saveload_variant": key.get("variant", "plain")}, sample={"key": key})


def finalize(tier, results, obs, hist, metas):
    problems = []
    need = {"vector", "to_scalar", "concat_split", "expand_combine", "expand_merge", "pmap", "images", "copy", "jit", "vmap", "flatten"}
    seen = set(hist.get("ops", {}).keys())
    if not need <= seen:
        problems.append(f"re-layout pairs never exercised: {sorted(need - seen)}")
    if obs.get("save_load_round_trips", 0) < 4:
        problems.append("fewer than 4 save/load round trips")
    if obs.get("invariant_evaluations", 0) == 0:
        problems.append("the icontract structural invariant was never evaluated")
    return {}, problems
