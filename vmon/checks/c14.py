"""C14 — no cross-talk between batch entries, channels or tensor types.

P/R monitor: recorders on MultiImage.times_group_element / norm / average_pool / get_component /
batch_get_component / to_images; every result is compared, per batch entry and channel, with the
single-image operation on that image and with a NumPy reference (reference action, Frobenius norm, block
mean, field list). Models and layers: vmap(model)(X)[b] vs model(X[b]) and invariance of entry b when the
other entries of the batch are permuted or replaced; per-entry losses likewise."""
from __future__ import annotations

import numpy as np

from .. import mlgen, monitors, probes
from ..ref import action as ract, group as rgroup
from ..util import err_exact, result, rng_for, viol

ID = "C14"
RULE = (
    "per-image cases = (d in 1..3, non-square extents, signature, 0-3 leading axes with pairwise distinct sizes that also differ "
    "from d and the extents) x {group action (all g for d<=2, 12 for d=3), norm, average_pool, get_component/batch_get_component, "
    "to_images}; model cases = (equivariant/conventional ResNet, UNet, DilResNet, ConvBlock with group norm; single layers) x batch "
    "2..4: vmap vs un-batched call and replacement/permutation of the other entries; per-entry smse loss. Non-trivial: >=2 leading "
    "axes or >=2 types (per-image) / batch >=2 (models); distinct by configuration."
)
RULE += " Evaluation entry points (map_plus_loss_in_batches, map_loss_in_batches) with a model that couples batch entries in training mode only. Also: slice components, get_one, patch 3, magnitudes 1e15 / 1 / 1e-5 in one block judged per entry, timestep loss for all three reductions against per-sample losses."
ASSUMPTIONS = ["reference action / NumPy norm / block mean", "vmap vs single tolerance 1e-5 of the output scale; replacement of other entries 1e-6"]
ANCHORS = [
    "ginjax.geometric.multi_image:MultiImage.times_group_element", "ginjax.geometric.multi_image:MultiImage.norm", "ginjax.geometric.multi_image:MultiImage.average_pool",
    "ginjax.geometric.multi_image:MultiImage.get_component", "ginjax.geometric.multi_image:MultiImage.batch_get_component", "ginjax.geometric.multi_image:MultiImage.to_images",
    "ginjax.ml.layers:GroupNorm.__call__", "ginjax.ml.layers:_group_norm_K1",
]
MIN_NONTRIVIAL = {"quick": 60, "thorough": 800}
WORKERS = {"quick": 8, "thorough": 16}
TIMEOUT = {"quick": 1500, "thorough": 7200}
OPS = ["action", "norm", "average_pool", "get_component", "to_images"]


def cases(tier, seed):
    n_img, n_mod = (150, 14) if tier == "quick" else (5000, 300)
    out = [{"kind": "image", "op": OPS[i % len(OPS)]} for i in range(n_img)]
    out += [{"kind": "model", "equivariant": bool(i % 2)} for i in range(n_mod)]
    out += [{"kind": "evalmode"} for i in range(4 if tier == "quick" else 40)]
    return out


_amon = None
_log = probes.EventLog()
_log.enabled = False
_calls = {}


def setup(ctx):
    global _amon
    from ginjax.geometric.multi_image import MultiImage

    _amon = monitors.ActionMonitor().install()
    for n in ("norm", "average_pool", "get_component", "batch_get_component", "to_images"):
        def cnt(ev, nm=n):
            _calls[nm] = _calls.get(nm, 0) + 1
        probes.wrap_method(MultiImage, n, f"MultiImage.{n}", _log, cnt)
    return ract.selftest()


def run(case, ctx):
    if case["kind"] == "evalmode":
        return run_evalmode(case, ctx)
    return run_image(case, ctx) if case["kind"] == "image" else run_model(case, ctx)


def run_evalmode(case, ctx):
    """The evaluation entry points (ml.map_plus_loss_in_batches, ml.map_loss_in_batches: get_batches -> evaluate -> pmap) with a
    model whose layers couple the entries of a batch in training mode (what batch statistics do) and are per-sample in inference
    mode: every prediction and loss must be the per-sample one, and must not move when the other samples are replaced."""
    import equinox as eqx
    import jax
    import jax.numpy as jnp
    import ginjax.geometric as geom
    import ginjax.ml as ml
    import ginjax.models as models

    rng = rng_for(ctx["seed"], ID, case["i"])
    D = 2
    L, B = [(4, 2), (6, 3), (4, 4), (5, 2)][case["i"] % 4]
    types = [[(0, 0)], [(1, 0), (0, 0)], [(0, 1), (1, 1)]][int(rng.integers(3))]
    sp = (2, 3)

    class BatchCoupled(models.MultiImageModule):
        w: jax.Array
        inference: bool  # switched by eqx.nn.inference_mode, like the flag of BatchNorm / Dropout

        def __call__(self, x, aux_data=None):
            return x * self.w, aux_data

    def map_and_loss(m, xb, yb, aux):
        out = jax.vmap(lambda xi: m(xi)[0])(xb)
        if not m.inference:  # training mode: statistics of the current batch enter every entry
            out = geom.MultiImage({t: v - jnp.mean(v, axis=0, keepdims=True) for t, v in out.items()}, out.D, out.is_torus)
        per = ml.smse_loss(out, yb, None)
        return jnp.mean(per), aux, out

    def build(vals):
        return geom.MultiImage({t: jnp.asarray(vals[t]) for t in types}, D, True)

    xv = {t: rng.normal(size=(L, 2) + sp + (D,) * t[0]).astype(np.float32) + 3.0 for t in types}
    yv = {t: rng.normal(size=(L, 2) + sp + (D,) * t[0]).astype(np.float32) for t in types}
    xv2 = {t: np.concatenate([v[:1], rng.normal(size=v[1:].shape).astype(np.float32) - 5.0]) for t, v in xv.items()}  # others replaced
    yv2 = {t: np.concatenate([v[:1], rng.normal(size=v[1:].shape).astype(np.float32)]) for t, v in yv.items()}
    model = BatchCoupled(jnp.asarray(1.5), False)  # as it comes out of training
    key = {"kind": "evalmode", "L": L, "B": B, "types": types}
    viols, evals = [], 0
    try:
        loss, out = ml.map_plus_loss_in_batches(map_and_loss, model, build(xv), build(yv), B, None, None, None)
        loss2, out2 = ml.map_plus_loss_in_batches(map_and_loss, model, build(xv2), build(yv2), B, None, None, None)
        loss_only = ml.map_loss_in_batches(lambda m, a, b, c: map_and_loss(m, a, b, c)[:2], model, build(xv), build(yv), B, None, None, None)
        evals += 3
        n = (L // B) * B
        for t in types:
            want = (xv[t][:n].astype(np.float64) * 1.5)
            got = np.asarray(out[t])
            if got.shape != want.shape or np.max(np.abs(got - want)) > 1e-5 * np.max(np.abs(want)):
                viols.append(viol("evaluation-couples-batch-entries", f"map_plus_loss_in_batches: the mapped block {t} is not the per-sample prediction (the model was run in training mode: batch statistics couple the samples); {key}"))
                break
            if not np.array_equal(np.asarray(out2[t])[0], got[0]):
                viols.append(viol("evaluation-couples-batch-entries", f"map_plus_loss_in_batches: the prediction for sample 0 moved when the other samples of its batch were replaced; {key}"))
                break
        per = np.mean([sum(np.mean(np.sum((xv[t][i].astype(np.float64) * 1.5 - yv[t][i]) ** 2, axis=tuple(range(1 + D, 1 + D + t[0]))).sum(0)) for t in types) for i in range(n)])
        for nm, l_ in (("map_plus_loss_in_batches", loss), ("map_loss_in_batches", loss_only)):
            if abs(float(l_) - per) > 1e-4 * max(1.0, abs(per)):
                viols.append(viol("evaluation-couples-batch-entries", f"{nm} returned {float(l_):.6g}, the mean of the per-sample losses is {per:.6g} (evaluation must run the model in inference mode); {key}"))
    except Exception as e:
        import traceback

        viols.append(viol(f"evaluation-exception-{type(e).__name__}", f"{type(e).__name__}: {str(e)[:300]}; {key}; {traceback.format_exc()[-400:]}"))
    return result(key, viols, True, evals=evals, obs={"evaluation_entry_point_calls": evals}, hist={"kind": "evalmode"}, sample={"key": key})


def run_image(case, ctx):
    import jax.numpy as jnp
    import ginjax.geometric as geom

    rng = rng_for(ctx["seed"], ID, case["i"])
    op = case["op"]
    D = int(rng.choice([1, 2, 2, 3]))
    if op == "average_pool" and D == 1:
        D = 2
    patch = int(rng.choice([2, 2, 3]))
    sp = tuple(int(v) for v in rng.choice([1, 2, 3, 4], size=D, replace=(D > 3)))
    if op == "average_pool":
        sp = tuple(patch * int(v) for v in rng.choice([1, 2, 3], size=D, replace=True))
    n_lead = int(rng.integers(0, 4))
    if op in ("norm",):
        n_lead = max(1, n_lead)
    if op == "get_component":
        n_lead = int(rng.integers(1, 3))
    lead_pool = [v for v in (5, 6, 7, 8, 9, 10) if v != D and v not in sp]
    batch_lead = tuple(int(v) for v in rng.choice(lead_pool, size=max(0, n_lead - 1), replace=False))
    pool = [(k, p) for k in range(3 if D > 1 else 1) for p in (0, 1)]
    if D == 3:
        pool = [t for t in pool if t[0] <= 2]
    types = [pool[i] for i in rng.choice(len(pool), size=int(rng.integers(1, min(3, len(pool)) + 1)), replace=False)]
    future = int(rng.integers(1, 3)) if op == "get_component" else 1
    torus = tuple(bool(v) for v in rng.integers(0, 2, size=D))
    blocks = {}
    for (k, p) in types:
        c = int(rng.integers(1, 4)) * future
        shp = (batch_lead + (c,) if n_lead >= 1 else ()) + sp + (D,) * k
        blocks[(k, p)] = rng.integers(-4, 5, size=shp).astype(np.float32)
    mi = geom.MultiImage({t: jnp.asarray(v) for t, v in blocks.items()}, D, torus)
    key = {"op": op, "D": D, "sp": sp, "n_lead": n_lead, "lead": batch_lead, "types": {str(t): list(v.shape) for t, v in blocks.items()}}
    viols, evals = [], 0
    _amon.take()
    try:
        if op == "action":
            G = rgroup.hyperoctahedral(D)
            gs = G if D <= 2 else [G[int(i)] for i in rng.choice(len(G), size=12, replace=False)]
            for g in gs:
                out = mi.times_group_element(g)
                evals += 1
                # per entry == single-image operation
                if D > 1:
                    for (k, p), blk in blocks.items():
                        flat_in = blk.reshape((-1,) + sp + (D,) * k)
                        ob = np.asarray(out[(k, p)])
                        flat_out = ob.reshape((-1,) + ob.shape[n_lead:])
                        j = int(rng.integers(len(flat_in)))
                        single = geom.GeometricImage(jnp.asarray(flat_in[j]), p, D, torus).times_group_element(g)
                        if flat_out[j].shape != tuple(single.data.shape) or err_exact(flat_out[j], single.data) > 1e-5:
                            viols.append(viol("multi-vs-single-action", f"entry {j} of block {(k, p)} != single-image action; g={g.tolist()}; {key}"))
                            break
                viols += _amon.take()
                if viols:
                    break
        elif op == "norm":
            if case["i"] % 3 == 0 and n_lead >= 1:
                # entries of very different magnitude in one block (a field in raw units next to a normalised one):
                # every entry's norm must be right relative to ITS OWN scale
                for t in list(blocks):
                    v = blocks[t].copy()
                    flat = v.reshape((-1,) + sp + (D,) * t[0])
                    for j in range(len(flat)):
                        flat[j] *= [1e15, 1.0, 1e-5][int(rng.integers(3))]
                    blocks[t] = flat.reshape(v.shape).astype(np.float32)
                mi = geom.MultiImage({t: jnp.asarray(v) for t, v in blocks.items()}, D, torus)
                key["magnitudes"] = "mixed 1e15 / 1 / 1e-5"
            out = mi.norm()
            evals += 1
            parts = [np.sqrt((v.reshape(v.shape[: n_lead + D] + (-1,)) ** 2).sum(-1)) for v in blocks.values()]
            want = np.concatenate(parts, axis=n_lead - 1)
            got = np.asarray(out[(0, 0)]) if list(out.keys()) == [(0, 0)] else None
            def per_entry_bad(g_, w_):
                g2, w2 = g_.reshape((-1,) + sp), w_.reshape((-1,) + sp)
                for j in range(len(w2)):
                    sc = max(float(np.max(np.abs(w2[j]))), 1e-30)
                    if not np.all(np.isfinite(g2[j])) or float(np.max(np.abs(g2[j] - w2[j]))) > 1e-4 * sc:
                        return j
                return None

            if got is None or got.shape != want.shape or err_exact(got, want) > 1e-5 or per_entry_bad(got, want) is not None:
                j = None if (got is None or got.shape != want.shape) else per_entry_bad(got, want)
                viols.append(viol("multi-norm-crosstalk", f"MultiImage.norm != per-image Frobenius norm (shape {None if got is None else got.shape} vs {want.shape}; first wrong image {j}, relative to its own scale); {key}"))
            else:
                (k, p), blk = next(iter(blocks.items()))
                flat = blk.reshape((-1,) + sp + (D,) * k)
                if D > 1 or k == 0:
                    j = int(rng.integers(len(flat)))
                    single = np.asarray(geom.GeometricImage(jnp.asarray(flat[j]), p, D, torus).norm().data)
                    w = parts[0].reshape((-1,) + sp)[j]
                    if err_exact(single, w) > 1e-5:
                        viols.append(viol("multi-norm-vs-single", f"single-image norm differs from the reference; {key}"))
        elif op == "average_pool":
            out = mi.average_pool(patch)
            evals += 1
            for (k, p), blk in blocks.items():
                want = blk
                for ax in range(n_lead, n_lead + D):
                    shp = list(want.shape)
                    shp[ax : ax + 1] = [shp[ax] // patch, patch]
                    want = want.reshape(shp).mean(axis=ax + 1)
                got = np.asarray(out[(k, p)])
                if got.shape != want.shape or err_exact(got, want) > 1e-5:
                    viols.append(viol("multi-average-pool-crosstalk", f"block {(k, p)}: average_pool != per-image block mean (shape {got.shape} vs {want.shape}); {key}"))
                    break
        elif op == "get_component":
            fields = []
            def field_list(bl):
                fl = []
                for (k, p), v in bl.items():
                    e = v.reshape((-1, future) + sp + (D**k,))
                    for c in range(e.shape[0]):
                        for comp in range(D**k):
                            fl.append(e[c, ..., comp])
                return fl
            if n_lead == 1:
                fl = field_list(blocks)
                comp = int(rng.integers(len(fl)))
                out = mi.get_component(comp, future)
                evals += 1
                got = np.asarray(out[(0, 0)])
                if list(out.keys()) != [(0, 0)] or got.shape != fl[comp].shape or err_exact(got, fl[comp]) > 1e-5:
                    viols.append(viol("get-component", f"get_component({comp}) is not field {comp} of the image (shape {got.shape} vs {fl[comp].shape}); {key}"))
                if len(fl) >= 2:
                    lo = int(rng.integers(0, len(fl) - 1))
                    sl = slice(lo, lo + 2)
                    got = np.asarray(mi.get_component(sl, future)[(0, 0)])
                    want = np.stack(fl[sl]).reshape((-1,) + sp)
                    if got.shape != want.shape or err_exact(got, want) > 1e-5:
                        viols.append(viol("get-component", f"get_component(slice) wrong; {key}"))
            else:
                nb = batch_lead[0]
                fl0 = field_list({t: v[0] for t, v in blocks.items()})
                comp = int(rng.integers(len(fl0)))
                out = mi.batch_get_component(comp, future)
                evals += 1
                got = np.asarray(out[(0, 0)])
                want = np.stack([field_list({t: v[b] for t, v in blocks.items()})[comp] for b in range(nb)])
                if got.shape != want.shape or err_exact(got, want) > 1e-5:
                    viols.append(viol("batch-get-component-crosstalk", f"batch_get_component({comp}) differs from the per-entry result (shape {got.shape} vs {want.shape}); {key}"))
                # slices selecting several components (the per-entry result of a slice is the stacked fields of that entry)
                for sl in ([slice(None)] + ([slice(lo_, lo_ + 2) for lo_ in {0, int(rng.integers(0, len(fl0) - 1))}] if len(fl0) >= 2 else [])):
                    got = np.asarray(mi.batch_get_component(sl, future)[(0, 0)])
                    evals += 1
                    want = np.stack([np.stack(field_list({t: v[b] for t, v in blocks.items()})[sl]).reshape((-1,) + sp) for b in range(nb)])
                    if got.shape != want.shape or err_exact(got, want) > 1e-5:
                        viols.append(viol("batch-get-component-crosstalk", f"batch_get_component({sl}) differs from the per-entry get_component({sl}) (shape {got.shape} vs {want.shape}); {key}"))
                        break
                    # and against the library's own single-entry call
                    b0 = int(rng.integers(nb))
                    single = np.asarray(mi.get_one(b0, keepdims=False).get_component(sl, future)[(0, 0)])
                    if single.shape != got[b0].shape or err_exact(got[b0], single) > 1e-5:
                        viols.append(viol("batch-get-component-crosstalk", f"batch_get_component({sl})[{b0}] != get_component({sl}) on entry {b0}; {key}"))
                        break
        elif op == "to_images":
            if n_lead >= 1:  # selecting one entry along the first axis is a per-image operation too
                L0 = next(iter(blocks.values())).shape[0]
                if len({v.shape[0] for v in blocks.values()}) == 1:
                    j = int(rng.integers(L0))
                    for keep in (True, False):
                        one = mi.get_one(j, keepdims=keep)
                        for t, v in blocks.items():
                            want = v[j : j + 1] if keep else v[j]
                            if t not in one or np.asarray(one[t]).shape != want.shape or not np.array_equal(np.asarray(one[t]), want):
                                viols.append(viol("get-one-crosstalk", f"get_one({j}, keepdims={keep}) block {t} is not entry {j}; {key}"))
                                break
                    evals += 2
            imgs = mi.to_images()
            evals += 1
            want = []
            for (k, p), blk in blocks.items():
                for a in blk.reshape((-1,) + sp + (D,) * k):
                    want.append((k, p, a))
            if len(imgs) != len(want):
                viols.append(viol("to-images-count", f"{len(imgs)} images, expected {len(want)}; {key}"))
            else:
                for j, (im, (k, p, a)) in enumerate(zip(imgs, want)):
                    if im.k != k or im.parity != p or im.D != D or tuple(im.is_torus) != torus or not np.array_equal(np.asarray(im.data), a):
                        viols.append(viol("to-images-crosstalk", f"image {j} is not (type {(k, p)}, its own data); {key}"))
                        break
    except Exception as e:
        import traceback

        viols.append(viol(f"multi-op-exception-{type(e).__name__}", f"{type(e).__name__}: {str(e)[:300]}; {key}; {traceback.format_exc()[-400:]}"))
    nontrivial = n_lead >= 2 or len(types) >= 2
    return result(key, viols[:3], nontrivial, evals=evals, obs={"per_image_ops_checked": evals}, hist={"op": op, "D": D, "n_lead": n_lead, "ntypes": len(types)}, sample={"cfg": key})


def run_model(case, ctx):
    import contextlib
    import io

    import jax
    import jax.numpy as jnp
    import ginjax.geometric as geom
    import ginjax.ml as ml

    rng = rng_for(ctx["seed"], ID, case["i"])
    eq = case["equivariant"]
    D = 2
    sink = io.StringIO()
    viols, evals = [], 0
    grey = False
    key = {"kind": "model", "equivariant": eq}
    try:
        with contextlib.redirect_stdout(sink):
            which = ["model", "model", "layer"][int(rng.integers(3))] if eq else "model"
            if which == "model":
                cfg = mlgen.gen_model_cfg(rng, D, classes=("UNet", "ResNet", "ResNet", "DilResNet", "ConvBlock"), equivariant=eq)
                cfg["norm"] = True if cfg["cls"] != "ConvBlock" or eq else cfg["norm"]
                if cfg["norm"]:
                    cfg["mid"] = None  # (explicit mid types were drawn for the un-normalised configuration)
                    # normalisation accepts k<=1: regenerate signatures within that
                    for s in ("in_sig", "out_sig"):
                        cfg[s] = [[t, c] for t, c in cfg[s] if t[0] <= 1] or [[[0, 0], 2]]
                    cfg["bank_ks"] = [0, 1, 2]
                    if eq:
                        st, _, _ = mlgen.type_flow(cfg)
                        if not st:
                            cfg["in_sig"], cfg["out_sig"] = [[[0, 0], 1], [[1, 0], 1]], [[[1, 0], 2]]
                if not eq:
                    cfg["bias"] = ["auto", True, False][int(rng.integers(3))]
                    if cfg["cls"] == "ConvBlock":
                        cfg["in_sig"], cfg["out_sig"] = [[[0, 0], 2]], [[[0, 0], 3]]
                model = mlgen.perturb(mlgen.build_model(cfg, case["i"]), rng, 0.2)
                f = lambda z: model(z)[0]
                sig, sp, torus = mlgen.sig_of(cfg["in_sig"]), tuple(cfg["N"]), tuple(cfg["torus"])
                key.update({k: cfg[k] for k in ("cls", "in_sig", "out_sig", "norm", "bias", "N", "activation")})
            else:
                lk = ["GroupNorm", "VectorNeuronNonlinear", "MaxNormPool", "ConvContract"][int(rng.integers(4))]
                sig = [((0, 0), 2), ((1, 0), 2), ((0, 1), 2)][: int(rng.integers(1, 4))]
                sp, torus = (4, 4), (True, True)
                if lk == "GroupNorm":
                    layer = mlgen.perturb(ml.GroupNorm(mlgen.signature(sig), D, 2), rng, 0.5)
                elif lk == "VectorNeuronNonlinear":
                    layer = mlgen.perturb(ml.VectorNeuronNonlinear(mlgen.signature(sig), D, key=jax.random.PRNGKey(case["i"])), rng, 0.5)
                elif lk == "MaxNormPool":
                    layer = ml.MaxNormPool(2)
                else:
                    layer = mlgen.perturb(ml.ConvContract(mlgen.signature(sig), mlgen.signature(sig), mlgen.ref_bank(D, 3, (0, 1, 2), (0, 1)), key=jax.random.PRNGKey(case["i"])), rng, 0.5)
                f = lambda z: layer(z)
                key.update({"layer": lk, "sig": sig})
            nb = int(rng.integers(2, 5))
            X = mlgen.random_multi(rng, sig, D, sp, torus, lead=(nb,))
            Yb = jax.vmap(f)(X)
            evals += 1
            b = int(rng.integers(nb))
            single = f(X.get_one(b, keepdims=False))
            evals += 1
            S = mlgen.trace_scale(Yb)
            # batched kernels round differently: judge against the measured conditioning of f at this entry
            kappa = mlgen.sensitivity(f, X.get_one(b, keepdims=False), rng, rel=1e-4)
            tau = max(1e-5, 100 * kappa * 1.2e-7) if np.isfinite(kappa) else 1e-5
            for t in single.keys():
                d = float(np.max(np.abs(np.asarray(Yb[t])[b] - np.asarray(single[t]))) / max(S, 1e-30))
                if d >= 10 * tau:
                    viols.append(viol("vmap-differs-from-single", f"vmap(f)(X)[{b}] != f(X[{b}]) for block {t}: {d:.3g} (threshold {tau:.2g}, kappa {kappa:.3g}); {key}"))
                    break
                if d > tau:
                    grey = True
            # replace / permute the other entries
            X2 = mlgen.random_multi(rng, sig, D, sp, torus, lead=(nb,))
            perm = [i for i in rng.permutation(nb)]
            data = {}
            for t in X.keys():
                arr = np.asarray(X2[t]).copy()
                arr[b] = np.asarray(X[t])[b]
                data[t] = jnp.asarray(arr)
            Y2 = jax.vmap(f)(geom.MultiImage(data, D, torus))
            evals += 1
            for t in single.keys():
                d = float(np.max(np.abs(np.asarray(Yb[t])[b] - np.asarray(Y2[t])[b])) / max(S, 1e-30))
                if d > 1e-6:
                    viols.append(viol("batch-crosstalk", f"entry {b} of the batch changed by {d:.3g} when the other entries were replaced (block {t}); {key}"))
                    break
            # per-entry loss
            target = mlgen.random_multi(rng, [(tt, np.asarray(Yb[tt]).shape[1]) for tt in Yb.keys()], D, tuple(Yb.get_spatial_dims()), torus, lead=(nb,))
            l1 = np.asarray(ml.smse_loss(Yb, target, None))
            l2 = np.asarray(ml.smse_loss(Y2, target, None))
            if abs(l1[b] - l2[b]) > 1e-5 * max(1.0, abs(l1[b])):
                viols.append(viol("loss-crosstalk", f"per-entry loss of entry {b} changed when other entries were replaced; {key}"))
            # per-timestep loss, every batch reduction: what is reported for a sample is what that sample gives alone
            steps = int(rng.integers(2, 4))
            sig_t = [(tt, steps * int(rng.integers(1, 3))) for tt in list(Yb.keys())[:2]]
            P = mlgen.random_multi(rng, sig_t, D, tuple(Yb.get_spatial_dims()), torus, lead=(nb,))
            T = mlgen.random_multi(rng, sig_t, D, tuple(Yb.get_spatial_dims()), torus, lead=(nb,))
            alone = np.stack([np.asarray(ml.timestep_smse_loss(P.get_subset(jnp.array([i])), T.get_subset(jnp.array([i])), steps, "mean")) for i in range(nb)])
            worst = int(np.argmax(alone.sum(axis=1)))
            for mode, want in ((None, alone), ("mean", alone.mean(axis=0)), ("max", alone[worst])):
                got = np.asarray(ml.timestep_smse_loss(P, T, steps, mode))
                evals += 1
                if got.shape != want.shape or np.max(np.abs(got - want)) > 1e-4 * max(1.0, float(np.max(np.abs(want)))):
                    viols.append(viol("timestep-loss-crosstalk", f"timestep_smse_loss(reduce={mode!r}) on a batch of {nb} != the per-sample losses evaluated alone (worst sample {worst}): got {got.tolist()}, alone {want.tolist()}; {key}"))
    except Exception as e:
        import traceback

        viols.append(viol(f"vmap-exception-{type(e).__name__}", f"{type(e).__name__}: {str(e)[:300]}; {key}; {traceback.format_exc()[-500:]}"))
    if grey and not viols:
        return {"status": "inconclusive", "key": str(key), "nontrivial": False, "why": "vmap vs single in the numerical grey zone", "evals": evals}
    return result(key, viols, True, evals=evals, obs={"batched_executions": evals}, hist={"op": "vmap-" + str(key.get("cls", key.get("layer"))), "equivariant": eq}, sample={"cfg": key})


def finalize(tier, results, obs, hist, metas):
    calls = {}
    for m in metas:
        for k, v in (m.get("monitor") or {}).items():
            calls[k] = calls.get(k, 0) + v
    need = ["norm", "average_pool", "get_component", "batch_get_component", "to_images", "action_mi"]
    missing = [k for k in need if not calls.get(k)]
    return {"probe_calls": calls}, ([f"probes never fired: {missing}"] if missing else [])


def teardown(ctx):
    d = dict(_calls)
    d["action_mi"] = _amon.checked["mi"]
    return {"monitor": d}
