"""C06 — the equivariant linear layer is equivariant for every parameter value.

P-monitor (paired execution): class-level recorder on ml.ConvContract.__call__ logs the run on x and the
runs on g.x (reference action, flags transported); the two outputs must be related by g under the declared
type of every block. Weights and biases are perturbed away from initialisation; the bank is built by the
harness (invariant by construction) or, in thorough, the library's bank after its premise check."""
from __future__ import annotations

import numpy as np

from .. import mlgen, probes
from ..ref import group as rgroup
from ..util import result, rng_for, viol

ID = "C06"
RULE = (
    "cases = random ConvContract configurations (signatures over {(k,p): k<=2 (d=2) / k<=1 (d=3)} with unequal channels in any "
    "order, five bias settings, padding None/TORUS/SAME/VALID/symmetric explicit, rhs dilation, lhs dilation with symmetric "
    "explicit padding, all torus-flag patterns, non-square images, M in {2,3,5}, d in {2,3}, banks invariant under B_d or (thorough) "
    "under SO-part / C2^d only), parameters = init + random perturbation of every weight and bias; all g of the bank's group "
    "(d=3 quick: one per conjugacy class + 2); torus translations. Non-trivial: >=1 non-zero output block and g != e; "
    "a layer returning no blocks is not counted. Distinct by configuration."
)
RULE += " Strata of the layer generator: high tensor orders through the single-pixel bank (d=3, (2,0),(3,1) -> (3,1),(2,0): filter orders 4 and 5), hand-merged banks with 3x3 and 5x5 filter types. Also: equal-channel and wide (64) layers, single-pixel banks, long-reach dilation on 2-4 pixel tori (every 6th case), structured special parameter values (every 5th case), lattice mode; flags x padding by a covering schedule."
ASSUMPTIONS = ["reference action; harness-built invariant banks (vmon/ref/invariant.py)", "tolerance: defect <= 1e-4 held, >= 1e-3 violated, between: re-drawn"]
ANCHORS = ["ginjax.ml.layers:ConvContract.__init__", "ginjax.ml.layers:ConvContract.individual_convolve", "ginjax.ml.layers:ConvContract.__call__"]
MIN_NONTRIVIAL = {"quick": 30, "thorough": 400}
WORKERS = {"quick": 8, "thorough": 16}
TIMEOUT = {"quick": 1200, "thorough": 7200}
TAU = 1e-4


def cases(tier, seed):
    n = 72 if tier == "quick" else 1500
    out = []
    for i in range(n):
        D = 2 if i % 4 else 3
        grp = "B"
        src = "ref"
        if tier == "thorough":
            grp = ["B", "B", "SO", "C2d"][i % 4 if i % 8 < 4 else 0]
            src = "lib" if i % 10 == 9 else "ref"
        out.append({"D": D, "group": grp, "bank": src})
    return out


_log = probes.EventLog()
_log.enabled = False
_calls = [0]


def setup(ctx):
    import ginjax.ml.layers as L

    probes.wrap_method(L.ConvContract, "__call__", "ConvContract.__call__", _log, lambda ev: _calls.__setitem__(0, _calls[0] + 1))
    return {}


def abs_layer(layer):
    import jax
    import jax.numpy as jnp
    import equinox as eqx

    return jax.tree_util.tree_map(lambda v: jnp.abs(v) if eqx.is_inexact_array(v) else v, layer)


def run(case, ctx):
    import contextlib
    import io

    rng = rng_for(ctx["seed"], ID, case["i"])
    D, grp = case["D"], case["group"]
    cfg = mlgen.gen_layer_cfg(rng, D, group=grp, equal_channels=(case["i"] % 4 == 1), stratum=case["i"])
    if grp != "B":
        cfg["M"] = 3 if cfg["M"] == 5 else cfg["M"]
    key = {k: cfg[k] for k in ("D", "M", "in_sig", "out_sig", "drop", "bias", "padding", "lhs", "rhs", "torus", "sp")}
    key["mixed_M"], key["high_order"] = cfg.get("mixed_M"), bool(cfg.get("high_order"))
    key["group"] = grp
    key["bank"] = case["bank"]
    sink = io.StringIO()
    viols, evals, noise = [], 0, 0.0
    Gp = rgroup.subgroups(D)[grp]
    if D == 3 and ctx["tier"] == "quick" and grp == "B":
        reps = rgroup.conjugacy_class_reps(3)
        Gp = reps + [Gp[int(i)] for i in rng.choice(len(Gp), size=2, replace=False)]
    try:
        with contextlib.redirect_stdout(sink):
            bank = mlgen.build_bank(cfg, case["bank"])
            if case["bank"] == "lib" and not mlgen.bank_is_invariant(bank, D, grp):
                return {"status": "skipped", "key": "premise-broken-see-C03", "nontrivial": False}
            layer = mlgen.perturb(mlgen.build_layer(cfg, bank, case["i"]), rng, 0.5)
            if case["i"] % 5 == 4:
                layer = mlgen.special_values(layer, rng)  # zero / identical rows, all-zero or all-one weight blocks
            # every third case: integer weights and integer lattice input (the multilinear part is then exact in float32,
            # so a single wrong index shows as a wrong integer); biases stay random reals
            lattice_mode = case["i"] % 3 == 2
            if lattice_mode:
                from .c11 import integerise

                layer = integerise(layer, rng)
            nontrivial = False
            for attempt in range(3):
                x = mlgen.random_multi(rng, mlgen.sig_of(cfg["in_sig"]), D, tuple(cfg["sp"]), tuple(cfg["torus"]), kind="lattice" if lattice_mode else "normal")
                y = layer(x)
                evals += 1
                Y = probes.blocks(y)
                nontrivial = any(np.any(v != 0) for v in Y.values())
                S = mlgen.trace_scale(x, y)
                # conditioning of the layer's sum (see C11): the same layer with the magnitudes of all weights, biases and
                # filters applied to |x| bounds the sum of |terms|; rounding noise is a few eps32 of that whatever cancels
                S = max(S, 2.0 * mlgen.trace_scale(abs_layer(layer)(mlgen.abs_mi(x))))
                worst, wg, wmsg = 0.0, None, None
                for g in Gp:
                    gx = mlgen.act_mi(x, g)
                    ygx = layer(gx)
                    evals += 1
                    want = mlgen.act_blocks(Y, D, g, 1)
                    d, msg = mlgen.compare(ygx, want, 1, S)
                    if msg is None and tuple(ygx.is_torus) != rgroup.transport(g, tuple(cfg["torus"])):
                        d, msg = float("inf"), f"output flags {ygx.is_torus} not those of g.x"
                    if d > worst:
                        worst, wg, wmsg = d, g, msg
                # translations on torus axes
                tmsg = None
                if any(cfg["torus"]) and cfg["lhs"] is None and cfg["padding"] in (None, "TORUS"):
                    shift = tuple(int(rng.integers(0, n)) if t else 0 for n, t in zip(cfg["sp"], cfg["torus"]))
                    ys = layer(mlgen.roll_mi(x, shift))
                    evals += 1
                    want = {t: np.roll(v, shift, axis=tuple(range(1, 1 + D))) for t, v in Y.items()}
                    d, msg = mlgen.compare(ys, want, 1, S)
                    if d > TAU:
                        tmsg = (d, shift, msg)
                if worst <= TAU and tmsg is None:
                    noise = max(noise, worst)
                    break
                if worst >= 10 * TAU or (tmsg and tmsg[0] >= 10 * TAU):
                    if worst >= 10 * TAU:
                        viols.append(viol("layer-not-equivariant", f"ConvContract(g.x) != g.ConvContract(x): defect {worst:.3g} ({wmsg}) for g={wg.tolist()}; {key}", cfg=cfg, g=wg.tolist()))
                    else:
                        viols.append(viol("layer-not-translation-equivariant", f"shift {tmsg[1]}: defect {tmsg[0]:.3g}; {key}", cfg=cfg))
                    break
            else:
                return {"status": "inconclusive", "key": str(key), "nontrivial": False, "why": f"grey zone after 3 draws: defect {worst:.3g}", "evals": evals}
    except Exception as e:
        import traceback

        viols.append(viol(f"layer-exception-{type(e).__name__}", f"{type(e).__name__}: {str(e)[:300]}; {key}; {traceback.format_exc()[-400:]}"))
        nontrivial = True
    return result(key, viols, nontrivial, evals=evals, noise=noise, obs={"paired_layer_executions": evals},
                  hist={"D": D, "M": ("mixed" if cfg.get("mixed_M") else ("1-high-order" if cfg.get("high_order") else cfg["M"])), "group": grp, "bank": case["bank"], "operands": "integer-lattice" if case["i"] % 3 == 2 else "random-reals", "bias": str(cfg["bias"]), "pad_kind": cfg["pad_kind"] + ("+lhs" if cfg["lhs"] else ""), "torus_kind": cfg["torus_kind"], "square": len(set(cfg["sp"])) == 1},
                  sample={"cfg": key, "noise": noise})


def finalize(tier, results, obs, hist, metas):
    return {"probe_calls": sum((m.get("monitor") or {}).get("calls", 0) for m in metas)}, []


def teardown(ctx):
    return {"monitor": {"calls": _calls[0]}}
