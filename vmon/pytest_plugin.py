"""pytest plugin: runs files of the repository's own test-suite as a *workload* with the R-monitors attached
(geom.convolve / convolve_contract, the three times_group_element entry points, MultiImage arithmetic).
The suite's assertions are ignored by the caller; only the monitors' verdicts count. Each (xdist) process
writes its counters and recorded violations to $VMON_SUITE_OUT/suite_<pid>.json at session end."""
from __future__ import annotations

import json
import os

_state = {}


def pytest_configure(config):
    import ginjax.geometric  # noqa: F401
    import ginjax.ml  # noqa: F401
    import ginjax.models  # noqa: F401

    from vmon import monitors

    want = os.environ.get("VMON_SUITE_MONITORS", "action,conv,arith").split(",")
    if "action" in want:
        _state["action"] = monitors.ActionMonitor().install()
    if "conv" in want:
        _state["conv"] = monitors.ConvMonitor(max_elems=400_000).install()
    if "arith" in want:
        _state["arith"] = monitors.ArithMonitor().install()


def pytest_sessionfinish(session, exitstatus):
    out = os.environ.get("VMON_SUITE_OUT")
    if not out:
        return
    from vmon import core

    rep = {"pid": os.getpid(), "exitstatus": int(exitstatus), "monitors": {}}
    for name, mon in _state.items():
        rep["monitors"][name] = {"checked": dict(mon.checked), "violations": core.jsonable(mon.viol[:20]), "n_violations": len(mon.viol), "skipped": getattr(mon, "skipped", 0), "traced": getattr(mon, "traced", 0)}
    os.makedirs(out, exist_ok=True)
    with open(os.path.join(out, f"suite_{os.getpid()}.json"), "w") as f:
        json.dump(rep, f)
