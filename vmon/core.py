"""Driver: shards cases over worker subprocesses, aggregates three-valued verdicts,
classifies violations against known_findings.json, writes evidence and replay files.

The parent process never imports jax/ginjax; workers do (one XLA thread each).
Exit codes: 0 held, 1 violation not listed as known, 2 inconclusive.
"""
from __future__ import annotations

import importlib
import json
import os
import shutil
import subprocess
import sys
import time
from collections import Counter

VERIF = os.path.dirname(os.path.dirname(os.path.abspath(__file__)))
REPO = os.environ.get("VMON_REPO", "/repo")
PY = os.environ.get("VMON_PY", "/venv/bin/python")
GUARD = "GINJAX_VERIF"
# self-validation runs against scratch trees (VMON_REPO) write their evidence/replays elsewhere (VMON_OUT);
# no registered command sets either variable
OUT = os.environ.get("VMON_OUT", VERIF)


def worker_env() -> dict:
    env = dict(os.environ)
    env["PYTHONPATH"] = f"{REPO}/src:{VERIF}"
    env["JAX_PLATFORMS"] = "cpu"
    env["MPLBACKEND"] = "Agg"
    env["WANDB_MODE"] = "disabled"
    env["PYTHONHASHSEED"] = "0"
    env[GUARD] = "1"
    env["OMP_NUM_THREADS"] = "1"
    env["OPENBLAS_NUM_THREADS"] = "1"
    env["MKL_NUM_THREADS"] = "1"
    flags = env.get("XLA_FLAGS", "")
    if "intra_op_parallelism_threads" not in flags:
        flags += " --xla_cpu_multi_thread_eigen=false intra_op_parallelism_threads=1"
    env["XLA_FLAGS"] = flags.strip()
    env["PYTHONDONTWRITEBYTECODE"] = "1"
    env["JAX_COMPILATION_CACHE_DIR"] = ""
    return env


def load_known() -> list[dict]:
    path = os.path.join(VERIF, "known_findings.json")
    if not os.path.exists(path):
        return []
    with open(path) as f:
        return json.load(f)["findings"]


def load_check(prop: str):
    return importlib.import_module(f"vmon.checks.{prop.lower()}")


def jsonable(o):
    import numpy as np  # numpy is fine in the parent

    if isinstance(o, dict):
        return {str(k): jsonable(v) for k, v in o.items()}
    if isinstance(o, (list, tuple, set, frozenset)):
        return [jsonable(v) for v in o]
    if isinstance(o, np.ndarray):
        return jsonable(o.tolist())
    if isinstance(o, (np.integer,)):
        return int(o)
    if isinstance(o, (np.floating,)):
        return float(o)
    if isinstance(o, (np.bool_,)):
        return bool(o)
    if isinstance(o, float) and (o != o or o in (float("inf"), float("-inf"))):
        return repr(o)
    if isinstance(o, (str, int, float, bool)) or o is None:
        return o
    return repr(o)


def run_parent(prop: str, tier: str, seed: int) -> int:
    t0 = time.time()
    mod = load_check(prop)
    cases = mod.cases(tier, seed)
    for i, c in enumerate(cases):
        c.setdefault("i", i)
    n_workers = min(getattr(mod, "WORKERS", {"quick": 8, "thorough": 16})[tier], max(1, len(cases)))
    timeout = getattr(mod, "TIMEOUT", {"quick": 900, "thorough": 7200})[tier]
    work = os.path.join(OUT, ".work", f"{prop}_{tier}_{os.getpid()}")
    os.makedirs(work, exist_ok=True)
    procs = []
    env = worker_env()
    for w in range(n_workers):
        shard = [c for j, c in enumerate(cases) if j % n_workers == w]
        inp = os.path.join(work, f"in_{w}.json")
        out = os.path.join(work, f"out_{w}.jsonl")
        with open(inp, "w") as f:
            json.dump({"prop": prop, "tier": tier, "seed": seed, "cases": shard}, f)
        log = open(os.path.join(work, f"log_{w}.txt"), "w")
        p = subprocess.Popen(
            [PY, "-m", "vmon.worker", inp, out], env=env, cwd=VERIF, stdout=log, stderr=subprocess.STDOUT
        )
        procs.append((w, p, out, log, len(shard)))

    results, incomplete = [], []
    metas = []
    deadline = t0 + timeout
    for w, p, out, log, n in procs:
        try:
            p.wait(timeout=max(1.0, deadline - time.time()))
        except subprocess.TimeoutExpired:
            p.kill()
            p.wait()
            incomplete.append(f"worker {w}: watchdog ({timeout}s) fired")
        log.close()
        got = 0
        if os.path.exists(out):
            with open(out) as f:
                for line in f:
                    line = line.strip()
                    if not line:
                        continue
                    try:
                        r = json.loads(line)
                    except json.JSONDecodeError:
                        continue
                    if r.get("meta"):
                        metas.append(r)
                    else:
                        results.append(r)
                        got += 1
        if got < n and not any(s.startswith(f"worker {w}:") for s in incomplete):
            # the worker process died (e.g. a native abort inside jaxlib/XLA while compiling one configuration): the first
            # unreported case is marked inconclusive and the rest of the shard is re-run in a fresh process
            shard = [c for j, c in enumerate(cases) if j % n_workers == w]
            more, note = rescue_shard(prop, tier, seed, shard, {r["i"] for r in results}, work, w, env, deadline, p.returncode)
            results.extend(r for r in more if not r.get("meta"))
            metas.extend(r for r in more if r.get("meta"))
            if note:
                incomplete.append(note)

    rc = aggregate(prop, tier, seed, mod, cases, results, metas, incomplete, time.time() - t0, work)
    if rc == 0 and not os.environ.get("VMON_KEEP_WORK"):
        shutil.rmtree(work, ignore_errors=True)
    elif not os.environ.get("VMON_KEEP_WORK"):
        # keep only logs
        for fn in os.listdir(work):
            if fn.startswith("in_"):
                os.remove(os.path.join(work, fn))
    return rc


def rescue_shard(prop, tier, seed, shard, reported, work, w, env, deadline, first_rc, max_restarts=6):
    out = []
    rc = first_rc
    for attempt in range(max_restarts):
        todo = [c for c in shard if c["i"] not in reported and c["i"] not in {r.get("i") for r in out}]
        if not todo:
            return out, None
        suspect = todo[0]
        tail = ""
        try:
            with open(os.path.join(work, f"log_{w}.txt")) as f:
                txt = f.read()
            lines = [l for l in txt.splitlines() if l.strip() and not l.lstrip().startswith("@")]
            tail = " | ".join(lines[-4:])[-600:]
        except OSError:
            pass
        out.append({"i": suspect["i"], "status": "inconclusive", "nontrivial": False, "key": f"worker-died-{suspect['i']}", "evals": 0,
                    "why": f"the worker process died (exit {rc}) while running this case - a native abort outside Python (jaxlib/XLA), not a verdict on the property; log: {tail}"})
        rest = todo[1:]
        if not rest:
            return out, None
        if time.time() > deadline:
            return out, f"worker {w}: died and the watchdog left no time to re-run {len(rest)} cases"
        inp = os.path.join(work, f"in_{w}_r{attempt}.json")
        outp = os.path.join(work, f"out_{w}_r{attempt}.jsonl")
        with open(inp, "w") as f:
            json.dump({"prop": prop, "tier": tier, "seed": seed, "cases": rest}, f)
        with open(os.path.join(work, f"log_{w}.txt"), "w") as log:
            try:
                pr = subprocess.run([PY, "-m", "vmon.worker", inp, outp], env=env, cwd=VERIF, stdout=log, stderr=subprocess.STDOUT, timeout=max(1.0, deadline - time.time()))
                rc = pr.returncode
            except subprocess.TimeoutExpired:
                return out, f"worker {w}: re-run after a crash hit the watchdog"
        if os.path.exists(outp):
            with open(outp) as f:
                for line in f:
                    try:
                        out.append(json.loads(line))
                    except json.JSONDecodeError:
                        pass
    todo = [c for c in shard if c["i"] not in reported and c["i"] not in {r.get("i") for r in out}]
    return out, (f"worker {w}: still {len(todo)} unreported cases after {max_restarts} restarts" if todo else None)


def aggregate(prop, tier, seed, mod, cases, results, metas, incomplete, wall, work) -> int:
    known = [k for k in load_known() if k["property"] == prop]
    known_active = {k["key"]: k for k in known if k["status"] == "known"}
    case_by_i = {c["i"]: c for c in cases}

    evaluations = 0
    nontrivial_keys = set()
    status_count = Counter()
    obs = Counter()
    hist: dict[str, Counter] = {}
    samples = []
    violations = []
    inconclusive_cases = []
    noise_max = 0.0
    for r in results:
        evaluations += int(r.get("evals", 1))
        status_count[r["status"]] += 1
        if r.get("nontrivial") and r["status"] in ("held", "violated"):
            for k in (r["key"] if isinstance(r.get("key"), list) else [r.get("key")]):
                nontrivial_keys.add(json.dumps(k, sort_keys=True) if not isinstance(k, str) else k)
        for k, v in (r.get("obs") or {}).items():
            obs[k] += v
        for dim, val in (r.get("hist") or {}).items():
            vals = val if isinstance(val, list) else [val]
            for v in vals:
                hist.setdefault(dim, Counter())[str(v)] += 1
        if r.get("noise") is not None:
            noise_max = max(noise_max, float(r["noise"]))
        if r.get("sample") is not None and len(samples) < 6:
            samples.append(r["sample"])
        for v in r.get("viol") or []:
            v = dict(v)
            v["case"] = case_by_i.get(r["i"], {"i": r["i"]})
            violations.append(v)
        if r["status"] == "inconclusive":
            inconclusive_cases.append({"i": r["i"], "why": r.get("why", "")})

    extra, final_problems = {}, []
    if hasattr(mod, "finalize"):
        extra, final_problems = mod.finalize(tier, results, obs, hist, metas)

    # classify violations
    unknown, known_hit = [], {}
    for v in violations:
        mech = v.get("mechanism", "unclassified")
        if mech in known_active:
            known_hit.setdefault(mech, []).append(v)
        else:
            unknown.append(v)

    replay_paths = []
    if unknown:
        rdir = os.path.join(OUT, "replays", prop)
        os.makedirs(rdir, exist_ok=True)
        seen = Counter()
        for v in unknown:
            mech = v.get("mechanism", "unclassified")
            seen[mech] += 1
            if seen[mech] > 3:
                continue
            path = os.path.join(rdir, f"{tier}_s{seed}_{mech.replace(':', '_').replace('/', '_')}_{v['case'].get('i')}.json")
            with open(path, "w") as f:
                json.dump(jsonable({"property": prop, "tier": tier, "seed": seed, "case": v["case"], "violation": v}), f, indent=1)
            replay_paths.append((mech, path, v.get("msg", "")))

    min_nt = getattr(mod, "MIN_NONTRIVIAL", {"quick": 2, "thorough": 2})[tier]
    reasons = list(incomplete) + list(final_problems)
    if len(nontrivial_keys) < max(2, min_nt):
        reasons.append(f"only {len(nontrivial_keys)} distinct non-trivial cases observed (< {max(2, min_nt)})")
    n_inc = status_count["inconclusive"]
    max_inc = getattr(mod, "MAX_INCONCLUSIVE_FRAC", 0.2)
    if results and n_inc > max_inc * len(results):
        reasons.append(f"{n_inc}/{len(results)} cases inconclusive: {inconclusive_cases[:3]}")

    if not samples:
        samples = [c for c in cases[:3]]
    coverage = {
        "evaluations": int(evaluations),
        "distinct_nontrivial": len(nontrivial_keys),
        "rule": getattr(mod, "RULE", ""),
        "samples": jsonable(samples),
        "exhaustive": bool(getattr(mod, "EXHAUSTIVE", {}).get(tier, False)) if isinstance(getattr(mod, "EXHAUSTIVE", {}), dict) else False,
        "cases": len(cases),
        "case_status": dict(status_count),
        "monitor_observations": dict(obs),
        "histograms": {k: dict(v) for k, v in hist.items()},
        "noise_floor_max": noise_max,
        "inconclusive_cases": inconclusive_cases[:10],
        "inconclusive_reasons": reasons,
        "known_findings_hit": {k: len(v) for k, v in known_hit.items()},
        "violation_mechanisms": dict(Counter(v.get("mechanism", "unclassified") for v in unknown)),
        "reachability": merge_reach(metas),
        "oracle_selftest": [m.get("selftest") for m in metas if m.get("selftest")][:1],
    }
    coverage.update(jsonable(extra))
    evidence = {
        "property_id": prop,
        "tier": tier,
        "seed": int(seed),
        "level": "exploration",
        "coverage": coverage,
        "assumptions": getattr(mod, "ASSUMPTIONS", []),
        "wall_s": round(wall, 2),
        "violations": len(unknown),
        "verdict": "violated" if unknown else ("inconclusive" if reasons else "held-on-observed"),
    }
    os.makedirs(os.path.join(OUT, "evidence"), exist_ok=True)
    with open(os.path.join(OUT, "evidence", f"{prop}.json"), "w") as f:
        json.dump(jsonable(evidence), f, indent=1)

    for mech, vs in known_hit.items():
        print(f"KNOWN-FINDING: property={prop} {mech}: {known_active[mech]['what']} ({len(vs)} observations)")
    print(
        f"[{prop} {tier} seed={seed}] cases={len(cases)} evaluations={evaluations} "
        f"distinct_nontrivial={len(nontrivial_keys)} status={dict(status_count)} wall={wall:.1f}s"
    )
    if unknown:
        shown = set()
        for mech, path, msg in replay_paths:
            if mech in shown:
                continue
            shown.add(mech)
            print(f"  mechanism={mech}: {msg}")
            print(f"VIOLATION property={prop} replay={path}")
        return 1
    if reasons:
        print(f"INCONCLUSIVE property={prop}: " + " | ".join(reasons)[:3000])
        return 2
    print(f"HELD property={prop} on everything observed")
    return 0


def merge_reach(metas):
    out: dict[str, dict] = {}
    for m in metas:
        for fn, d in (m.get("reach") or {}).items():
            o = out.setdefault(fn, {"entries": 0, "lines": set()})
            o["entries"] += d.get("entries", 0)
            o["lines"].update(d.get("lines", []))
    return {k: {"entries": v["entries"], "lines_hit": len(v["lines"])} for k, v in out.items()}


def run_replay(path: str) -> int:
    with open(path) as f:
        rep = json.load(f)
    prop = rep["property"]
    env = worker_env()
    work = os.path.join(VERIF, ".work", f"replay_{os.getpid()}")
    os.makedirs(work, exist_ok=True)
    inp, out = os.path.join(work, "in.json"), os.path.join(work, "out.jsonl")
    with open(inp, "w") as f:
        json.dump({"prop": prop, "tier": rep["tier"], "seed": rep["seed"], "cases": [rep["case"]]}, f)
    subprocess.run([PY, "-m", "vmon.worker", inp, out], env=env, cwd=VERIF, timeout=3600)
    rc = 2
    known_active = {k["key"] for k in load_known() if k["property"] == prop and k["status"] == "known"}
    with open(out) as f:
        for line in f:
            r = json.loads(line)
            if r.get("meta"):
                continue
            print(json.dumps({k: r.get(k) for k in ("i", "status", "key", "why")}, default=str))
            rc = 0 if r["status"] == "held" else rc
            for v in r.get("viol") or []:
                print(f"  mechanism={v.get('mechanism')}: {v.get('msg')}")
                if v.get("mechanism") in known_active:
                    print(f"KNOWN-FINDING: property={prop} {v.get('mechanism')}")
                    rc = 0 if rc != 1 else 1
                else:
                    print(f"VIOLATION property={prop} replay={path}")
                    rc = 1
    shutil.rmtree(work, ignore_errors=True)
    return rc


def main(argv=None):
    argv = list(sys.argv[1:] if argv is None else argv)
    if "--replay" in argv:
        return run_replay(argv[argv.index("--replay") + 1])
    prop = argv[0].upper()
    tier = argv[1] if len(argv) > 1 else os.environ.get("VERIF_TIER", "quick")
    seed = int(os.environ.get("VERIF_SEED", "0"))
    return run_parent(prop, tier, seed)


if __name__ == "__main__":
    sys.exit(main())
