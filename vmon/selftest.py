"""Oracle self-tests (run by setup_cmd and by the thorough tiers). Exit 0 iff all pass."""
from __future__ import annotations

import sys


def main():
    from vmon.ref import action, conv, group, invariant

    out = {}
    for m in (group, action, conv, invariant):
        out[m.__name__] = m.selftest()
    try:
        from vmon.ref import misc

        out[misc.__name__] = misc.selftest()
    except ImportError:
        pass
    print("oracle self-tests passed:", out)
    return 0


if __name__ == "__main__":
    sys.exit(main())
