"""Reference group action on geometric images, written from the defining formula
(g.A)(x') = det(g)^p * g^{(x)k} A(g^-1 (x' - c') + c),  c = (N-1)/2, c' = (|g| N - 1)/2.
NumPy float64; never calls ginjax. The source index must be integral and in range: the oracle
cannot silently wrap."""
from __future__ import annotations

import numpy as np

from . import group as G


def act(D: int, A, k: int, p: int, g, n_lead: int = 0) -> np.ndarray:
    A = np.asarray(A, dtype=np.float64)
    g = np.asarray(g)
    assert g.shape == (D, D)
    lead = A.shape[:n_lead]
    sp = A.shape[n_lead : n_lead + D]
    assert A.shape[n_lead + D :] == (D,) * k, (A.shape, n_lead, D, k)
    sp2 = tuple(int(v) for v in np.abs(g) @ np.array(sp))
    c = (np.array(sp) - 1) / 2
    c2 = (np.array(sp2) - 1) / 2
    grid = np.stack(np.meshgrid(*[np.arange(n) for n in sp2], indexing="ij"), -1).reshape(-1, D)
    ginv = np.linalg.inv(g.astype(float))
    src = (ginv @ (grid - c2).T).T + c
    srci = np.rint(src).astype(int)
    assert np.allclose(src, srci), "reference action: non-integral source pixel"
    assert ((srci >= 0) & (srci < np.array(sp))).all(), "reference action: source pixel out of range"
    flat = A.reshape(lead + sp + (D**k,))
    idx = tuple(srci[:, i] for i in range(D))
    T = flat[(slice(None),) * n_lead + idx].reshape(lead + (len(grid),) + (D,) * k)
    gf = g.astype(np.float64)
    for ax in range(k):
        axis = n_lead + 1 + ax
        T = np.moveaxis(np.tensordot(T, gf, axes=([axis], [1])), -1, axis)
    return (float(G.det(g)) ** p) * T.reshape(lead + sp2 + (D,) * k)


def act_loops(D, A, k, p, g):
    """Brute-force per-pixel, per-component version (self-test of the vectorised form)."""
    import itertools as it

    A = np.asarray(A, dtype=np.float64)
    g = np.asarray(g)
    sp = A.shape[:D]
    sp2 = tuple(int(v) for v in np.abs(g) @ np.array(sp))
    c = (np.array(sp) - 1) / 2
    c2 = (np.array(sp2) - 1) / 2
    ginv = np.linalg.inv(g.astype(float))
    out = np.zeros(sp2 + (D,) * k)
    for x2 in it.product(*[range(n) for n in sp2]):
        x = ginv @ (np.array(x2) - c2) + c
        xi = tuple(int(round(v)) for v in x)
        for I in it.product(range(D), repeat=k):
            s = 0.0
            for J in it.product(range(D), repeat=k):
                w = 1.0
                for a, b in zip(I, J):
                    w *= g[a, b]
                if w != 0:
                    s += w * A[xi + J]
            out[x2 + I] = (G.det(g) ** p) * s
    return out


def act_multi(blocks: dict, D: int, g, n_lead: int) -> dict:
    return {(k, p): act(D, v, k, p, g, n_lead) for (k, p), v in blocks.items()}


def roll(A, shift, D: int, n_lead: int = 0):
    return np.roll(np.asarray(A), tuple(shift), axis=tuple(range(n_lead, n_lead + D)))


def selftest(rng=None) -> dict:
    rng = rng or np.random.default_rng(0)
    n = 0
    for D, sp in ((1, (4,)), (2, (2, 3)), (2, (3, 3)), (3, (2, 3, 4)), (3, (1, 2, 2))):
        B = G.hyperoctahedral(D)
        for k in range(0, 3 if D > 1 else 1):
            for p in (0, 1):
                A = rng.integers(-3, 4, size=sp + (D,) * k).astype(float)
                e = np.eye(D, dtype=int)
                assert np.array_equal(act(D, A, k, p, e), A)
                for g in B[:: max(1, len(B) // 8)]:
                    gA = act(D, A, k, p, g)
                    assert np.allclose(gA, act_loops(D, A, k, p, g))
                    assert np.array_equal(act(D, gA, k, p, g.T), A)
                    for h in B[:: max(1, len(B) // 5)]:
                        assert np.array_equal(act(D, act(D, A, k, p, h), k, p, g), act(D, A, k, p, g @ h))
                        n += 1
    # leading axes
    A = rng.integers(-3, 4, size=(2, 3, 2, 4, 2)).astype(float)
    g = np.array([[0, -1], [1, 0]])
    full = act(2, A, 1, 1, g, 2)
    assert np.array_equal(full[1, 2], act(2, A[1, 2], 1, 1, g))
    return {"action_laws_checked": n}
