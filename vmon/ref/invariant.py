"""Reference for invariant filters: character-formula dimension, exact rank, and an invariant
bank built by orbit sums under the reference action (so that layer/model checks do not inherit
a defect of the library's generator)."""
from __future__ import annotations

import itertools as it
from fractions import Fraction

import numpy as np

from . import action, group as G


def fixed_pixels(g, M: int, D: int) -> int:
    """Number of pixels of the M^D grid fixed by g acting about the grid centre."""
    c = (M - 1) / 2
    n = 0
    for x in it.product(range(M), repeat=D):
        y = np.asarray(g) @ (np.array(x) - c) + c
        if np.allclose(y, x):
            n += 1
    return n


def invariant_dim(Gp, M: int, D: int, k: int, p: int) -> int:
    tot = 0
    for g in Gp:
        tot += fixed_pixels(g, M, D) * (int(np.trace(g)) ** k) * (G.det(g) ** p)
    assert tot % len(Gp) == 0
    return tot // len(Gp)


def rank_exact(rows) -> int:
    """Rank by fraction-exact Gaussian elimination (rows of small rationals)."""
    mat = [[Fraction(v).limit_denominator(10**6) for v in r] for r in rows]
    rank, ncols = 0, len(mat[0]) if mat else 0
    for col in range(ncols):
        piv = None
        for r in range(rank, len(mat)):
            if mat[r][col] != 0:
                piv = r
                break
        if piv is None:
            continue
        mat[rank], mat[piv] = mat[piv], mat[rank]
        pv = mat[rank][col]
        for r in range(rank + 1, len(mat)):
            if mat[r][col] != 0:
                f = mat[r][col] / pv
                mat[r] = [a - f * b for a, b in zip(mat[r], mat[rank])]
        rank += 1
        if rank == len(mat):
            break
    return rank


def rank_svd(rows):
    """(rank, gap_ok): float64 SVD rank with a spectral gap check."""
    a = np.asarray(rows, dtype=np.float64)
    if a.size == 0:
        return 0, True
    s = np.linalg.svd(a, compute_uv=False)
    tol = 1e-7 * max(1.0, s[0])
    r = int((s > tol).sum())
    kept_ok = r == 0 or s[r - 1] / s[0] >= 1e-5
    rest_ok = r == len(s) or s[r] <= 1e-9 * max(1.0, s[0])
    return r, bool(kept_ok and rest_ok)


def invariant_basis(Gp, M: int, D: int, k: int, p: int) -> np.ndarray:
    """An integer basis of the G-invariant filters of shape (M,)*D + (D,)*k: orbit sums of unit
    filters under the reference action, reduced to an independent family. Returns (n, M.., D..)."""
    shape = (M,) * D + (D,) * k
    size = int(np.prod(shape))
    rows = []
    seen = set()
    for idx in range(size):
        e = np.zeros(size)
        e[idx] = 1.0
        e = e.reshape(shape)
        s = sum(action.act(D, e, k, p, g) for g in Gp)
        if not np.any(s):
            continue
        flat = s.reshape(-1)
        lead = flat[np.flatnonzero(flat)[0]]
        flat = flat * np.sign(lead)
        key = tuple(np.round(flat, 9).tolist())
        if key in seen:
            continue
        seen.add(key)
        rows.append(flat)
    if not rows:
        return np.zeros((0,) + shape)
    # greedy independent subset (orbit sums of distinct orbits have disjoint or equal supports up to sign,
    # but tensor components can make them dependent, so test rank incrementally)
    mat = np.array(rows)
    if len(rows) <= 24:
        basis = []
        for r in rows:
            cand = basis + [r]
            if np.linalg.matrix_rank(np.array(cand), tol=1e-9) == len(cand):
                basis.append(r)
    else:
        # independent subset by QR with column pivoting on the transposed family
        from scipy.linalg import qr

        _, R, piv = qr(mat.T, mode="economic", pivoting=True)
        d = np.abs(np.diag(R))
        rnk = int((d > 1e-9 * max(1.0, d[0])).sum())
        basis = [rows[i] for i in sorted(piv[:rnk])]
    out = np.array(basis).reshape((len(basis),) + shape)
    assert len(basis) == invariant_dim(Gp, M, D, k, p), (len(basis), invariant_dim(Gp, M, D, k, p))
    return out


def invariant_bank(Gp, M: int, D: int, ks, ps) -> dict:
    """dict (k,p) -> array (n, (M,)*D, (D,)*k) for every type with at least one invariant filter."""
    out = {}
    for k in ks:
        for p in ps:
            b = invariant_basis(Gp, M, D, k, p)
            if len(b):
                # scale like the library does (max |entry| = 1) -- scale is irrelevant to invariance
                out[(k, p)] = b / np.max(np.abs(b.reshape(len(b), -1)), axis=1).reshape((-1,) + (1,) * (b.ndim - 1))
    return out


def selftest() -> dict:
    B2 = G.hyperoctahedral(2)
    # known values for D=2, M=3, full group: k=0,p=0 -> 3 ; k=1,p=0 -> 2 ; k=0,p=1 -> 0 ; k=1,p=1 -> 2? (checked by construction)
    assert invariant_dim(B2, 3, 2, 0, 0) == 3
    assert invariant_dim(B2, 3, 2, 0, 1) == 0
    assert invariant_dim(B2, 5, 2, 0, 0) == 6
    assert invariant_dim([np.eye(2, dtype=int)], 3, 2, 1, 0) == 18
    n = 0
    for D, M in ((2, 3), (2, 2), (3, 3)):
        for name, Gp in G.subgroups(D).items():
            for k in (0, 1, 2) if D == 2 else (0, 1):
                for p in (0, 1):
                    b = invariant_basis(Gp, M, D, k, p)
                    for f in b:
                        for g in Gp:
                            assert np.allclose(action.act(D, f, k, p, g), f)
                    n += 1
    assert rank_exact([[1, 2], [2, 4], [0, 1]]) == 2
    return {"invariant_bases_checked": n}
