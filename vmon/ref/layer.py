"""Reference evaluation of the convolve-and-contract layer, from the statement of C11."""
from __future__ import annotations

import numpy as np

from . import conv as rconv


def norm_bias_mode(use_bias):
    if isinstance(use_bias, bool):
        return "auto" if use_bias else None
    return use_bias


def reachable_types(input_types, target_keys, bank_types):
    out = []
    for (kt, pt), _ in target_keys:
        if any(((ks + kt, (ps + pt) % 2) in bank_types) for (ks, ps) in input_types):
            out.append((kt, pt))
    return out


def layer(x_blocks: dict, weights: dict, bias: dict, bank: dict, target_keys, bias_mode, D, is_torus, stride, padding, lhs, rhs):
    """x_blocks {(k,p): (c,spatial,tensor)}; weights {in: {out: (out_c,in_c,n_filters)}}; bank {(k,p): (n,M..,D..)}.
    Returns {(k,p): (out_c, spatial', tensor)} for every reachable target type (float64)."""
    mode = norm_bias_mode(bias_mode)
    out = {}
    for (kt, pt), out_c in target_keys:
        acc = None
        for (ks, ps), xb in x_blocks.items():
            fk = (ks + kt, (ps + pt) % 2)
            if fk not in bank:
                continue
            w = np.asarray(weights[(ks, ps)][(kt, pt)], dtype=np.float64)
            filt = np.einsum("ocf,f...->oc...", w, np.asarray(bank[fk], dtype=np.float64))
            r = rconv.conv_contract(D, np.asarray(xb, dtype=np.float64)[None], filt, is_torus, stride, padding, lhs, rhs)[0]
            acc = r if acc is None else acc + r
        if acc is None:
            continue
        if mode is not None:
            if (kt, pt) == (0, 0) and mode in ("auto", "scalar"):
                acc = acc + np.asarray(bias[(kt, pt)], dtype=np.float64)
            elif ((kt, pt) != (0, 0) and mode == "auto") or mode == "mean":
                mean = acc.mean(axis=tuple(range(1, 1 + D)), keepdims=True)
                acc = acc + mean * np.asarray(bias[(kt, pt)], dtype=np.float64)
        out[(kt, pt)] = acc
    return out
