"""Reference groups of signed permutation matrices (own construction, NumPy ints)."""
from __future__ import annotations

import itertools as it

import numpy as np


def hyperoctahedral(D: int) -> list[np.ndarray]:
    out = []
    for perm in it.permutations(range(D)):
        for signs in it.product((1, -1), repeat=D):
            g = np.zeros((D, D), dtype=int)
            for i in range(D):
                g[i, perm[i]] = signs[i]
            out.append(g)
    return out


def key(g) -> tuple:
    return tuple(int(v) for v in np.asarray(g).reshape(-1))


def det(g) -> int:
    return int(round(np.linalg.det(np.asarray(g, dtype=float))))


def perm_of(g) -> tuple[int, ...]:
    """sigma with |g|[i, sigma(i)] = 1: axis i of g.A is axis sigma(i) of A."""
    a = np.abs(np.asarray(g))
    return tuple(int(np.argmax(a[i])) for i in range(a.shape[0]))


def transport(g, per_axis):
    """Carry a per-axis configuration (extents, flags, dilations, padding pairs) along with the axes."""
    s = perm_of(g)
    return tuple(per_axis[s[i]] for i in range(len(s)))


def transport_padding(g, pads):
    """Explicit padding pairs travel with their axis; a sign flip on the axis swaps (lo, hi)."""
    g = np.asarray(g)
    s = perm_of(g)
    out = []
    for i in range(len(s)):
        lo, hi = pads[s[i]]
        out.append((lo, hi) if g[i, s[i]] > 0 else (hi, lo))
    return tuple(out)


def closure(gens, D: int) -> list[np.ndarray]:
    elems = {key(np.eye(D, dtype=int)): np.eye(D, dtype=int)}
    frontier = list(elems.values())
    while frontier:
        new = []
        for a in frontier:
            for b in gens:
                c = a @ b
                if key(c) not in elems:
                    elems[key(c)] = c
                    new.append(c)
        frontier = new
    return list(elems.values())


def is_group(G) -> bool:
    ks = {key(g) for g in G}
    D = G[0].shape[0]
    if key(np.eye(D, dtype=int)) not in ks:
        return False
    return all(key(a @ b) in ks for a in G for b in G)


def subgroups(D: int) -> dict[str, list[np.ndarray]]:
    B = hyperoctahedral(D)
    out = {
        "B": B,
        "SO": [g for g in B if det(g) == 1],
        "C2d": [g for g in B if perm_of(g) == tuple(range(D))],
        "trivial": [np.eye(D, dtype=int)],
    }
    refl = np.eye(D, dtype=int)
    refl[0, 0] = -1
    out["refl"] = closure([refl], D)
    if D == 2:
        out["C4"] = closure([np.array([[0, -1], [1, 0]])], 2)
        out["diag"] = closure([np.array([[0, 1], [1, 0]])], 2)
    if D == 3:
        out["C3"] = closure([np.array([[0, 0, 1], [1, 0, 0], [0, 1, 0]])], 3)
        out["C4z"] = closure([np.array([[0, -1, 0], [1, 0, 0], [0, 0, 1]])], 3)
    return out


_ALL_SUB = {}


def all_subgroups(D: int) -> dict[str, list[np.ndarray]]:
    """Every subgroup of B_d (10 for d=2, 98 for d=3), found by closing generator sets under the multiplication table until no
    new subgroup appears; named S<d>_<order>_<n> (n numbers the subgroups of one order), with the conjugacy class in `sub_class`."""
    if D in _ALL_SUB:
        return _ALL_SUB[D][0]
    B = hyperoctahedral(D)
    n = len(B)
    idx = {key(g): i for i, g in enumerate(B)}
    mul = np.array([[idx[key(a @ b)] for b in B] for a in B])
    e = idx[key(np.eye(D, dtype=int))]

    def close(gens):
        S = {e} | set(gens)
        frontier = list(S)
        while frontier:
            new = []
            for a in frontier:
                for b in list(S):
                    for c in (mul[a, b], mul[b, a]):
                        if c not in S:
                            S.add(int(c))
                            new.append(int(c))
            frontier = new
        return frozenset(S)

    found = {close([])}
    frontier = list(found)
    while frontier:
        new = []
        for S in frontier:
            for c in range(n):
                if c not in S:
                    T = close(list(S) + [c])
                    if T not in found:
                        found.add(T)
                        new.append(T)
        frontier = new
    inv = [int(np.where(mul[i] == e)[0][0]) for i in range(n)]
    subs = sorted(found, key=lambda S: (len(S), sorted(S)))
    out, cls, count = {}, {}, {}
    for S in subs:
        count[len(S)] = count.get(len(S), 0) + 1
        name = f"S{D}_{len(S)}_{count[len(S)]}"
        out[name] = [B[i] for i in sorted(S)]
        cls[name] = min(tuple(sorted(int(mul[mul[h, g], inv[h]]) for g in S)) for h in range(n))
    _ALL_SUB[D] = (out, cls)
    return out


def sub_class_reps(D: int) -> list[str]:
    """One subgroup name per conjugacy class of subgroups of B_d."""
    all_subgroups(D)
    seen, reps = set(), []
    for name, c in _ALL_SUB[D][1].items():
        if c not in seen:
            seen.add(c)
            reps.append(name)
    return reps


def group_named(D: int, name: str) -> list[np.ndarray]:
    return all_subgroups(D)[name] if name.startswith("S") and "_" in name else subgroups(D)[name]


def conjugacy_class_reps(D: int) -> list[np.ndarray]:
    B = hyperoctahedral(D)
    seen, reps = set(), []
    for g in B:
        if key(g) in seen:
            continue
        reps.append(g)
        for h in B:
            seen.add(key(h @ g @ h.T))
    return reps


def is_three_cycle(g) -> bool:
    s = perm_of(g)
    return len(s) == 3 and all(s[i] != i for i in range(3))


def selftest() -> dict:
    res = {}
    for D in (1, 2, 3):
        B = hyperoctahedral(D)
        assert len(B) == (2**D) * [1, 1, 2, 6][D]
        assert len({key(g) for g in B}) == len(B)
        assert is_group(B)
        for name, G in subgroups(D).items():
            assert is_group(G), (D, name)
        res[f"B{D}"] = len(B)
    assert len(all_subgroups(2)) == 10 and len(sub_class_reps(2)) == 8
    assert len(all_subgroups(3)) == 98 and len(sub_class_reps(3)) == 33
    assert all(is_group(G) for G in all_subgroups(3).values())
    assert len(conjugacy_class_reps(2)) == 5 and len(conjugacy_class_reps(3)) == 10
    g = np.array([[0, -1], [1, 0]])
    assert transport(g, (5, 7)) == (7, 5)
    assert transport_padding(g, ((1, 2), (3, 4))) == ((4, 3), (1, 2))
    return res
