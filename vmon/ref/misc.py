"""Small reference models written from the statements: stopping automaton (C19), windows (C15),
rollout (C16), losses (C18), scalar re-layout (C13/C20)."""
from __future__ import annotations

import numpy as np


# ---- C19 -------------------------------------------------------------------------------------
class PatienceAutomaton:
    """Stop at the first epoch at which the monitored loss has failed to improve on the best so far
    by more than min_delta for more than `patience` consecutive epochs."""

    def __init__(self, patience, min_delta):
        self.patience, self.min_delta = patience, min_delta
        self.best = float("inf")
        self.count = 0
        self.best_model = None
        self.has_best = False

    def step(self, model, loss):
        if loss is None:
            return False
        loss = float(loss)
        if loss < self.best - self.min_delta:
            self.best, self.best_model, self.count, self.has_best = loss, model, 0, True
        else:
            self.count += 1
        return self.count > self.patience


class EpochAutomaton:
    def __init__(self, epochs):
        self.epochs = epochs
        self.best_model = None
        self.has_best = False

    def step(self, model, epoch):
        self.best_model, self.has_best = model, True
        return epoch >= self.epochs


# ---- C15 -------------------------------------------------------------------------------------
def windows(T, p, f, dt, s):
    """(n_samples, input times [n,p], target times [n,f]) for a trajectory of T steps."""
    n = T - s - (p + f - 1) * dt
    inp = [[s + w + j * dt for j in range(p)] for w in range(max(n, 0))]
    tgt = [[s + w + (p + j) * dt for j in range(f)] for w in range(max(n, 0))]
    return n, inp, tgt


# ---- C18 -------------------------------------------------------------------------------------
def smse(x: dict, y: dict, D: int, reduce="mean"):
    """x,y: {(k,p): (batch,channels,spatial,tensor)} float64."""
    some = next(iter(x.values()))
    batch = some.shape[0]
    k0 = next(iter(x.keys()))[0]
    sp = some.shape[2 : 2 + D]
    npix = float(np.prod(sp))
    per = np.zeros(batch)
    for t in x:
        d = (np.asarray(x[t], dtype=np.float64) - np.asarray(y[t], dtype=np.float64)) ** 2
        per += d.reshape(batch, -1).sum(1) / npix
    return per.mean() if reduce == "mean" else per


def timestep_smse(x: dict, y: dict, D: int, n_steps: int, reduce="mean"):
    some = next(iter(x.values()))
    batch = some.shape[0]
    sp = some.shape[2 : 2 + D]
    npix = float(np.prod(sp))
    per = np.zeros((batch, n_steps))
    for t in x:
        a = np.asarray(x[t], dtype=np.float64)
        b = np.asarray(y[t], dtype=np.float64)
        a = a.reshape((batch, -1, n_steps) + a.shape[2:])
        b = b.reshape((batch, -1, n_steps) + b.shape[2:])
        d = (a - b) ** 2
        d = np.moveaxis(d, 2, 1).reshape(batch, n_steps, -1).sum(2) / npix
        per += d
    if reduce == "mean":
        return per.mean(0)
    if reduce == "max":
        return per[int(np.argmax(per.sum(1)))]
    return per


def normalized_smse(x: dict, y: dict, D: int, eps=1e-5):
    some = next(iter(x.values()))
    batch = some.shape[0]
    sp = some.shape[2 : 2 + D]
    npix = float(np.prod(sp))
    per = np.zeros(batch)
    for (k, p) in y:
        a = np.asarray(x[(k, p)], dtype=np.float64)
        b = np.asarray(y[(k, p)], dtype=np.float64)
        nrm2 = (b.reshape(b.shape[: 2 + D] + (-1,)) ** 2).sum(-1)
        d = ((a - b) ** 2).reshape(b.shape[: 2 + D] + (-1,)).sum(-1) / (nrm2 + eps)
        per += d.reshape(batch, -1).sum(1) / npix
    return per.mean()


# ---- C13 / C20 -------------------------------------------------------------------------------
def to_scalar_layout(blocks: dict, D: int, n_lead: int) -> np.ndarray:
    """{(k,p): (...,c,spatial,tensor)} in iteration order -> (...,C,spatial) with channel index
    offset(type) + channel*D^k + component (component in C order)."""
    outs = []
    nb = n_lead - 1
    for (k, p), v in blocks.items():
        v = np.asarray(v)
        c = v.shape[nb]
        sp = v.shape[nb + 1 : nb + 1 + D]
        comp = v.reshape(v.shape[:nb] + (c,) + sp + (D**k,))
        comp = np.moveaxis(comp, -1, nb + 1)  # (...,c,comp,spatial)
        outs.append(comp.reshape(v.shape[:nb] + (c * D**k,) + sp))
    return np.concatenate(outs, axis=nb)


def from_scalar_layout(arr: np.ndarray, layout, D: int, n_lead: int) -> dict:
    nb = n_lead - 1
    out, idx = {}, 0
    arr = np.asarray(arr)
    sp = arr.shape[nb + 1 :]
    for (k, p), c in layout:
        n = c * D**k
        part = np.take(arr, range(idx, idx + n), axis=nb)
        part = part.reshape(arr.shape[:nb] + (c, D**k) + sp)
        part = np.moveaxis(part, nb + 1, -1)
        out[(k, p)] = part.reshape(arr.shape[:nb] + (c,) + sp + (D,) * k)
        idx += n
    return out


def selftest():
    a = PatienceAutomaton(1, 0.0)
    seq = [None, 3.0, 3.0, 2.0, 2.0, 2.0]
    got = [a.step(i, v) for i, v in enumerate(seq)]
    assert got == [False, False, False, False, False, True] and a.best_model == 3
    n, i, t = windows(10, 2, 1, 2, 1)
    assert n == 10 - 1 - 2 * 2 and i[0] == [1, 3] and t[0] == [5] and i[-1] == [5, 7] and t[-1] == [9]
    rng = np.random.default_rng(0)
    blk = {(1, 0): rng.normal(size=(2, 3, 4, 5, 2)), (0, 1): rng.normal(size=(2, 1, 4, 5))}
    s = to_scalar_layout(blk, 2, 2)
    assert s.shape == (2, 7, 4, 5) and s[1, 3, 2, 1] == blk[(1, 0)][1, 1, 2, 1, 1] and s[0, 6, 0, 0] == blk[(0, 1)][0, 0, 0, 0]
    back = from_scalar_layout(s, (((1, 0), 3), ((0, 1), 1)), 2, 2)
    assert all(np.array_equal(back[t], blk[t]) for t in blk)
    x = {(0, 0): rng.normal(size=(2, 2, 3, 3))}
    y = {(0, 0): rng.normal(size=(2, 2, 3, 3))}
    assert abs(timestep_smse(x, y, 2, 2).sum() - smse(x, y, 2)) < 1e-12
    return {"misc": "ok"}
