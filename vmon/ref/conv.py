"""Reference convolution: the direct sum of the statement, NumPy float64.
out[b,o,i] = sum_c sum_a P[b,c, i*stride + a*rhs_dilation] (x) F[o,c,a]
P = wrap (torus axes, TORUS mode) -> zero-interleave (lhs dilation) -> zero pad."""
from __future__ import annotations

import itertools as it

import numpy as np


def norm_opts(D, is_torus, stride, padding, lhs_dilation, rhs_dilation, fsp):
    if isinstance(is_torus, bool):
        is_torus = (is_torus,) * D
    if not isinstance(stride, tuple):
        stride = (stride,) * D
    if not isinstance(rhs_dilation, tuple):
        rhs_dilation = (rhs_dilation,) * D
    if lhs_dilation is None:
        lhs_dilation = (1,) * D
    if padding is None:
        padding = "TORUS" if any(is_torus) else "SAME"
    half = [((M - 1) // 2) * rd for M, rd in zip(fsp, rhs_dilation)]
    wrap = [0] * D
    if isinstance(padding, str):
        if padding == "TORUS":
            wrap = [h if t else 0 for h, t in zip(half, is_torus)]
            zpad = [(0, 0) if t else (h, h) for h, t in zip(half, is_torus)]
        elif padding == "VALID":
            zpad = [(0, 0)] * D
        elif padding == "SAME":
            zpad = [(h, h) for h in half]
        else:
            raise ValueError(padding)
    elif isinstance(padding, int):
        zpad = [(padding, padding)] * D
    else:
        zpad = [tuple(int(v) for v in p) for p in padding]
    return tuple(is_torus), tuple(stride), tuple(lhs_dilation), tuple(rhs_dilation), wrap, zpad


def out_extents(sp, fsp, is_torus, stride, padding, lhs_dilation, rhs_dilation):
    D = len(sp)
    _, stride, lhs, rhs, wrap, zpad = norm_opts(D, is_torus, stride, padding, lhs_dilation, rhs_dilation, fsp)
    out = []
    for n, M, s, ld, rd, w, (lo, hi) in zip(sp, fsp, stride, lhs, rhs, wrap, zpad):
        n1 = n + 2 * w
        n2 = (n1 - 1) * ld + 1
        n3 = n2 + lo + hi
        out.append((n3 - (M - 1) * rd - 1) // s + 1 if n3 - (M - 1) * rd - 1 >= 0 else 0)
    return tuple(out)


def convolve(D, image, filt, is_torus, stride=1, padding=None, lhs_dilation=None, rhs_dilation=1):
    """image (B,Cin,spatial,(D,)*k); filt (Cout,Cin,fspatial,(D,)*k2) -> (B,Cout,ospatial,(D,)*(k+k2)),
    image tensor indices first, filter tensor indices after."""
    image = np.asarray(image, dtype=np.float64)
    filt = np.asarray(filt, dtype=np.float64)
    B, Cin = image.shape[:2]
    Cout = filt.shape[0]
    assert filt.shape[1] == Cin
    k = image.ndim - 2 - D
    fsp = filt.shape[2 : 2 + D]
    k2 = filt.ndim - 2 - D
    _, stride, lhs, rhs, wrap, zpad = norm_opts(D, is_torus, stride, padding, lhs_dilation, rhs_dilation, fsp)
    P = image
    if any(wrap):
        P = np.pad(P, [(0, 0), (0, 0)] + [(w, w) for w in wrap] + [(0, 0)] * k, mode="wrap")
    sp1 = P.shape[2 : 2 + D]
    sp2 = tuple((n - 1) * ld + 1 for n, ld in zip(sp1, lhs))
    Q = np.zeros(P.shape[:2] + sp2 + P.shape[2 + D :])
    Q[(slice(None), slice(None)) + tuple(slice(None, None, ld) for ld in lhs)] = P
    Q = np.pad(Q, [(0, 0), (0, 0)] + list(zpad) + [(0, 0)] * k)
    sp3 = Q.shape[2 : 2 + D]
    osp = tuple((n - (M - 1) * rd - 1) // s + 1 for n, M, rd, s in zip(sp3, fsp, rhs, stride))
    if min(osp) < 1:
        raise ValueError(f"empty output {osp}")
    out = np.zeros((B, Cout) + osp + (D,) * (k + k2))
    npix = int(np.prod(osp))
    for a in it.product(*[range(M) for M in fsp]):
        sl = tuple(slice(ai * rd, ai * rd + (o - 1) * s + 1, s) for ai, rd, o, s in zip(a, rhs, osp, stride))
        patch = Q[(slice(None), slice(None)) + sl].reshape(B, Cin, npix, D**k)
        F = filt[(slice(None), slice(None)) + a].reshape(Cout, Cin, D**k2)
        out += np.einsum("bcxi,ocj->boxij", patch, F).reshape(out.shape)
    return out


def convolve_loops(D, image, filt, is_torus, stride=1, padding=None, lhs_dilation=None, rhs_dilation=1):
    """Fully explicit index loops (self-test of the sliced form); small inputs only."""
    image = np.asarray(image, dtype=np.float64)
    filt = np.asarray(filt, dtype=np.float64)
    B, Cin = image.shape[:2]
    Cout = filt.shape[0]
    sp = image.shape[2 : 2 + D]
    k = image.ndim - 2 - D
    fsp = filt.shape[2 : 2 + D]
    k2 = filt.ndim - 2 - D
    tor, stride, lhs, rhs, wrap, zpad = norm_opts(D, is_torus, stride, padding, lhs_dilation, rhs_dilation, fsp)
    osp = out_extents(sp, fsp, is_torus, stride, padding, lhs_dilation, rhs_dilation)
    out = np.zeros((B, Cout) + osp + (D,) * (k + k2))

    def fetch(b, c, pos):
        # pos is a coordinate in the padded/interleaved/wrapped frame
        src = []
        for d in range(D):
            q = pos[d] - zpad[d][0]
            n1 = sp[d] + 2 * wrap[d]
            n2 = (n1 - 1) * lhs[d] + 1
            if q < 0 or q >= n2 or q % lhs[d] != 0:
                return None
            q = q // lhs[d] - wrap[d]
            if wrap[d]:
                q = q % sp[d]
            if q < 0 or q >= sp[d]:
                return None
            src.append(q)
        return image[(b, c) + tuple(src)]

    for b in range(B):
        for o in range(Cout):
            for i in it.product(*[range(n) for n in osp]):
                acc = np.zeros((D,) * (k + k2))
                for c in range(Cin):
                    for a in it.product(*[range(M) for M in fsp]):
                        pos = [i[d] * stride[d] + a[d] * rhs[d] for d in range(D)]
                        px = fetch(b, c, pos)
                        if px is None:
                            continue
                        acc += np.multiply.outer(px, filt[(o, c) + a])
                out[(b, o) + i] = acc
    return out


def contract(data, pairs, idx_shift):
    """Kronecker contraction of tensor index pairs (indices relative to idx_shift)."""
    data = np.asarray(data, dtype=np.float64)
    letters = "abcdefghijklmnopqrstuvw"
    ein = list(letters[: data.ndim])
    for n, (i, j) in enumerate(pairs):
        ein[i + idx_shift] = ein[j + idx_shift] = "XYZUVW"[n]
    return np.einsum("".join(ein), data)


def conv_contract(D, image, filt, is_torus, stride=1, padding=None, lhs_dilation=None, rhs_dilation=1):
    """Convolution followed by contraction of image index i with filter index i (i < k)."""
    image = np.asarray(image)
    k = image.ndim - 2 - D
    full = convolve(D, image, filt, is_torus, stride, padding, lhs_dilation, rhs_dilation)
    # after each contraction of (0, k - n) the remaining image indices shift left
    out = full
    for n in range(k):
        out = contract(out, ((0, k - n),), 2 + D)
    return out


def selftest(rng=None) -> dict:
    rng = rng or np.random.default_rng(1)
    n = 0
    cfgs = [
        (2, (3, 4), (3, 3), True, 1, None, None, 1),
        (2, (4, 5), (3, 3), (True, False), 1, "TORUS", None, 2),
        (2, (4, 3), (2, 2), False, (2, 1), ((1, 0), (0, 2)), None, 1),
        (2, (3, 3), (3, 1), False, 1, "SAME", (2, 2), 1),
        (2, (4, 4), (3, 3), False, 2, "VALID", None, 1),
        (2, (3, 2), (3, 3), (False, True), 1, "TORUS", (2, 1), 1),
        (3, (2, 3, 2), (3, 3, 3), (True, False, True), 1, None, None, 1),
        (3, (3, 2, 2), (1, 2, 1), False, 1, 1, None, (1, 2, 1)),
    ]
    for D, sp, fsp, tor, st, pad, lhs, rhs in cfgs:
        for k, k2 in ((0, 0), (1, 0), (0, 1), (1, 1)):
            img = rng.integers(-2, 3, size=(2, 2) + sp + (D,) * k)
            f = rng.integers(-2, 3, size=(2, 2) + fsp + (D,) * k2)
            a = convolve(D, img, f, tor, st, pad, lhs, rhs)
            b = convolve_loops(D, img, f, tor, st, pad, lhs, rhs)
            assert a.shape == b.shape and np.array_equal(a, b), (D, sp, fsp, tor, st, pad, lhs, rhs, k, k2)
            assert a.shape[2 : 2 + D] == out_extents(sp, fsp, tor, st, pad, lhs, rhs)
            n += 1
    # 1-pixel explicit case: delta image * filter = filter placed (flipped index convention: correlation)
    img = np.zeros((1, 1, 3, 3))
    img[0, 0, 1, 1] = 1
    f = np.arange(9.0).reshape(1, 1, 3, 3)
    out = convolve(2, img, f, False, 1, "SAME")
    assert np.array_equal(out[0, 0], f[0, 0][::-1, ::-1])
    # contraction
    T = rng.integers(-2, 3, size=(2, 2, 2))
    assert np.array_equal(contract(T, ((0, 2),), 0), np.einsum("iji->j", T))
    return {"conv_configs_crosschecked": n}
