"""vmon: runtime monitors for WilsonGregory/ginjax (see /verif/DESIGN.md)."""
