"""Probes: attach recorders to the real ginjax callables from the harness (no source hooks).

* rebind(orig, new): replaces every binding of `orig` (found by identity) in every loaded
  ginjax.* module namespace, so internal callers are observed too.
* wrap_method(cls, name, make_wrapper): class-level probe (works on eqx.Module subclasses).
* EventLog: ordered call/return events recorded at the boundary.
"""
from __future__ import annotations

import sys

import numpy as np


def is_tracer(x) -> bool:
    import jax

    return isinstance(x, jax.core.Tracer)


def any_tracer(*xs) -> bool:
    import jax

    for x in xs:
        for leaf in jax.tree_util.tree_leaves(x):
            if isinstance(leaf, jax.core.Tracer):
                return True
    return False


def rebind(orig, new, prefix="ginjax") -> int:
    n = 0
    for name, mod in list(sys.modules.items()):
        if mod is None or not name.startswith(prefix):
            continue
        for attr, val in list(vars(mod).items()):
            if val is orig:
                setattr(mod, attr, new)
                n += 1
    return n


class EventLog:
    def __init__(self):
        self.events = []
        self.enabled = True
        self.counts = {}

    def add(self, **ev):
        self.counts[ev.get("callee", "?")] = self.counts.get(ev.get("callee", "?"), 0) + 1
        if self.enabled:
            ev["seq"] = len(self.events)
            self.events.append(ev)
        return ev

    def clear(self):
        self.events = []

    def take(self):
        ev, self.events = self.events, []
        return ev


# Argument-write sanitizer: every probe digests the NumPy arrays reachable from its arguments before invoking and again
# after the return; a callee that wrote into an operand it was handed (an in-place `+=` on a NumPy-backed block, a scratch
# buffer that is really the caller's array) is recorded here and turned into a violation of the running case by the worker.
# jax arrays are immutable and skipped; methods that exist to mutate their object are exempt for `self`.
MUTATIONS = []
MUTATORS = {"append", "__setitem__", "__init__"}


def _np_leaves(x, depth=0, out=None):
    out = [] if out is None else out
    if depth > 4 or x is None:
        return out
    if isinstance(x, np.ndarray):
        if x.size and x.size <= 2_000_000 and x.dtype.kind in "biufc":
            out.append(x)
    elif isinstance(x, (tuple, list)):
        for v in x:
            _np_leaves(v, depth + 1, out)
    elif isinstance(x, dict):
        for v in x.values():
            _np_leaves(v, depth + 1, out)
    elif hasattr(x, "data") and type(x).__module__.startswith("ginjax"):
        _np_leaves(x.data, depth + 1, out)
    return out


def _digest(x):
    import zlib

    return [(a, zlib.crc32(np.ascontiguousarray(a).tobytes())) for a in _np_leaves(x)]


def _check_unwritten(pre, callee):
    import zlib

    for a, h in pre:
        if zlib.crc32(np.ascontiguousarray(a).tobytes()) != h:
            MUTATIONS.append({"callee": callee, "shape": list(a.shape), "dtype": str(a.dtype)})
            return


def wrap_function(orig, callee: str, log: EventLog, on_return=None):
    """Forwarding recorder: call event before invoking, return event after."""

    def recorder(*a, **kw):
        traced = any_tracer(a, kw)
        log.add(kind="call", callee=callee, traced=traced)
        pre = _digest((a, kw))
        out = orig(*a, **kw)
        if pre:
            _check_unwritten(pre, callee)
        traced = traced or any_tracer(out)
        ev = log.add(kind="return", callee=callee, traced=traced, args=None if traced else a, kwargs=None if traced else kw, out=None if traced else out)
        if on_return is not None and not traced:
            on_return(ev)
        return out

    recorder.__wrapped__ = orig
    recorder.__name__ = getattr(orig, "__name__", callee)
    return recorder


_installed = []


def install_function(module, name: str, callee: str, log: EventLog, on_return=None):
    orig = getattr(module, name)
    if getattr(orig, "_vmon_probe", False):
        orig = orig.__wrapped__
    rec = wrap_function(orig, callee, log, on_return)
    rec._vmon_probe = True
    n = rebind(orig, rec)
    if getattr(module, name) is not rec:
        setattr(module, name, rec)
        n += 1
    _installed.append((orig, rec))
    return n


def wrap_method(cls, name: str, callee: str, log: EventLog, on_return=None):
    orig = cls.__dict__.get(name)
    if orig is None:
        orig = getattr(cls, name)
    if getattr(orig, "_vmon_probe", False):
        return 0

    def method(self, *a, **kw):
        traced = any_tracer(self, a, kw)
        log.add(kind="call", callee=callee, traced=traced)
        pre = _digest((a, kw) if name in MUTATORS else (self, a, kw))
        out = orig(self, *a, **kw)
        if pre:
            _check_unwritten(pre, callee)
        traced = traced or any_tracer(out)
        ev = log.add(kind="return", callee=callee, traced=traced, obj=None if traced else self, args=None if traced else a, kwargs=None if traced else kw, out=None if traced else out)
        if on_return is not None and not traced:
            on_return(ev)
        return out

    method._vmon_probe = True
    method.__wrapped__ = orig
    method.__name__ = name
    setattr(cls, name, method)
    return 1


def blocks(mi, dtype=np.float64) -> dict:
    """MultiImage -> {(k,p): ndarray} in its own iteration order."""
    return {tuple(int(v) for v in kp): np.asarray(v, dtype=dtype) for kp, v in mi.data.items()}
