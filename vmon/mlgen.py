"""Helpers for the layer/model checks: banks, random multi-images, reference action on
multi-images, parameter perturbation, layer-trace probes, defect measures."""
from __future__ import annotations

import numpy as np

from . import probes
from .ref import action as ract, group as rgroup, invariant as rinv
from .util import defect

_bank_cache = {}


def ref_bank(D, M, ks, ps, group="B"):
    """Invariant filter bank built by the harness (orbit sums under the reference action) as a
    geom.MultiImage with blocks (n, (M,)*D, (D,)*k); invariant under `group` by construction."""
    import jax.numpy as jnp
    import ginjax.geometric as geom

    key = ("ref", D, M, tuple(ks), tuple(ps), group)
    if key not in _bank_cache:
        Gp = rgroup.subgroups(D)[group]
        bank = rinv.invariant_bank(Gp, M, D, ks, ps)
        _bank_cache[key] = geom.MultiImage({t: jnp.asarray(v.astype(np.float32)) for t, v in sorted(bank.items())}, D, True)
    return _bank_cache[key]


def lib_bank(D, M, ks, ps, group="B"):
    import ginjax.geometric as geom

    key = ("lib", D, M, tuple(ks), tuple(ps), group)
    if key not in _bank_cache:
        ops = [np.asarray(g) for g in rgroup.subgroups(D)[group]]
        _bank_cache[key] = geom.get_invariant_filters([M], list(ks), list(ps), D, ops)
    return _bank_cache[key]


def bank_is_invariant(bank, D, group="B", tol=1e-5):
    Gp = rgroup.subgroups(D)[group]
    for (k, p), blk in bank.data.items():
        b = np.asarray(blk, dtype=np.float64)
        for g in Gp:
            if np.max(np.abs(ract.act(D, b, k, p, g, 1) - b)) > tol:
                return False
    return True


def signature(sig):
    import ginjax.geometric as geom

    return geom.Signature(tuple(((int(k), int(p)), int(c)) for (k, p), c in sig))


def random_multi(rng, sig, D, sp, torus=True, lead=(), kind="normal", scale=1.0):
    import jax.numpy as jnp
    import ginjax.geometric as geom

    data = {}
    for (k, p), c in sig:
        shp = tuple(lead) + (c,) + tuple(sp) + (D,) * k
        if kind == "lattice":
            v = rng.integers(-3, 4, size=shp).astype(np.float32)
        elif kind == "zero":
            v = np.zeros(shp, dtype=np.float32)
        elif kind == "constant":
            v = np.broadcast_to(rng.normal(size=tuple(lead) + (c,) + (1,) * D + (D,) * k), shp).astype(np.float32).copy()
        elif kind == "onehot":
            v = np.zeros(shp, dtype=np.float32)
            v.reshape(-1)[int(rng.integers(v.size))] = 1.0
        elif kind == "onechannel":
            v = np.zeros(shp, dtype=np.float32)
            idx = [slice(None)] * len(shp)
            idx[len(lead)] = int(rng.integers(c))
            v[tuple(idx)] = rng.normal(size=v[tuple(idx)].shape)
        else:
            v = (scale * rng.normal(size=shp)).astype(np.float32)
        data[(k, p)] = jnp.asarray(v)
    return geom.MultiImage(data, D, torus)


def act_mi(mi, g, n_lead=None):
    """Reference action on a MultiImage (NumPy), flags transported; returns a new geom.MultiImage."""
    import jax.numpy as jnp
    import ginjax.geometric as geom

    D = mi.D
    nl = mi.get_n_leading() if n_lead is None else n_lead
    data = {t: jnp.asarray(ract.act(D, np.asarray(v), t[0], t[1], g, nl).astype(np.float32)) for t, v in mi.data.items()}
    return geom.MultiImage(data, D, rgroup.transport(g, tuple(mi.is_torus)))


def act_blocks(blocks, D, g, n_lead):
    return {t: ract.act(D, np.asarray(v), t[0], t[1], g, n_lead) for t, v in blocks.items()}


def roll_mi(mi, shift):
    import jax.numpy as jnp
    import ginjax.geometric as geom

    nl = mi.get_n_leading()
    D = mi.D
    return geom.MultiImage({t: jnp.roll(v, tuple(shift), axis=tuple(range(nl, nl + D))) for t, v in mi.data.items()}, D, mi.is_torus)


def abs_mi(x):
    import jax.numpy as jnp

    return x.__class__({t: jnp.abs(v) for t, v in x.items()}, x.D, x.is_torus)


def trace_scale(*mis):
    s = 0.0
    for m in mis:
        for v in (m.data.values() if hasattr(m, "data") else m.values()):
            v = np.asarray(v)
            if v.size:
                s = max(s, float(np.max(np.abs(v))))
    return s


def compare(out_a, want_blocks, n_lead, S=0.0):
    """Compare a MultiImage with expected blocks: (max defect, problem string or None)."""
    A = probes.blocks(out_a)
    if set(A) != set(want_blocks):
        return float("inf"), f"type sets differ: {sorted(A)} vs {sorted(want_blocks)}"
    worst = 0.0
    for t in A:
        if A[t].shape != np.asarray(want_blocks[t]).shape:
            return float("inf"), f"block {t} shape {A[t].shape} vs {np.asarray(want_blocks[t]).shape}"
        worst = max(worst, defect(A[t], want_blocks[t], S))
    return worst, None


def perturb(model, rng, scale=0.3, skip=("invariant_filters",)):
    """Add noise to every inexact array leaf except the invariant filter bank (not a parameter)."""
    import jax
    import jax.numpy as jnp
    import equinox as eqx

    def f(path, leaf):
        if not eqx.is_inexact_array(leaf):
            return leaf
        names = [getattr(p, "name", None) for p in path]
        if any(n in skip for n in names):
            return leaf
        return leaf + jnp.asarray((scale * rng.normal(size=leaf.shape)).astype(np.asarray(leaf).dtype))

    return jax.tree_util.tree_map_with_path(f, model, is_leaf=lambda x: x is None)


def special_values(model, rng, skip=("invariant_filters",)):
    """Structured special parameter values ("for every value of the learnable parameters" includes them): per inexact leaf
    one of {unchanged, a zero row, two identical rows, a zero column, all zeros, exact ones}."""
    import jax
    import jax.numpy as jnp
    import equinox as eqx

    def f(path, leaf):
        if not eqx.is_inexact_array(leaf) or leaf.ndim == 0:
            return leaf
        names = [getattr(p, "name", None) for p in path]
        if any(n in skip for n in names):
            return leaf
        a = np.array(leaf)
        how = int(rng.integers(6))
        i = int(rng.integers(a.shape[0]))
        if how == 1:
            a[i] = 0
        elif how == 2 and a.shape[0] >= 2:
            a[i] = a[(i + 1) % a.shape[0]]
        elif how == 3 and a.ndim >= 2:
            a[:, int(rng.integers(a.shape[1]))] = 0
        elif how == 4:
            a[...] = 0
        elif how == 5:
            a[...] = 1
        return jnp.asarray(a)

    return jax.tree_util.tree_map_with_path(f, model, is_leaf=lambda x: x is None)


def param_leaves(model, only_filters=False):
    import jax
    import equinox as eqx

    out = []

    def f(path, leaf):
        if eqx.is_inexact_array(leaf):
            names = [getattr(p, "name", None) for p in path]
            isf = "invariant_filters" in names
            if isf == only_filters:
                out.append((jax.tree_util.keystr(path), np.asarray(leaf)))
        return leaf

    jax.tree_util.tree_map_with_path(f, model)
    return out


# ---- layer trace -----------------------------------------------------------------------------
class LayerTrace:
    """Class-level probes on the layer classes; records (layer object, input, output) per concrete call."""

    def __init__(self):
        self.log = probes.EventLog()
        self.installed = False

    def install(self):
        import ginjax.ml.layers as L
        import ginjax.models as M

        for cls in (L.ConvContract, L.GroupNorm, L.VectorNeuronNonlinear, L.MaxNormPool, L.LayerWrapper):
            probes.wrap_method(cls, "__call__", cls.__name__, self.log)
        probes.wrap_method(M.ConvBlock, "__call__", "ConvBlock", self.log)
        self.installed = True
        return self

    def take(self):
        return [e for e in self.log.take() if e["kind"] == "return"]


def layer_desc(ev):
    obj = ev.get("obj")
    nm = ev["callee"] if obj is None else type(obj).__name__
    d = {"layer": nm}
    for a in ("use_bias", "padding", "lhs_dilation", "rhs_dilation", "stride", "patch_len", "use_norm", "groups", "preactivation_order", "use_group_norm"):
        if obj is not None and hasattr(obj, a):
            try:
                d[a] = getattr(obj, a)
            except Exception:
                pass
    if obj is not None and hasattr(obj, "input_keys"):
        d["in"] = str(obj.input_keys)
        d["out"] = str(obj.target_keys)
    return d


def near_tie(x_block, D, patch_len, n_lead=1, rel=1e-3):
    """True if some max-pool patch has two *unequal* tensors whose norms are within rel of the max."""
    v = np.asarray(x_block, dtype=np.float64)
    sp = v.shape[n_lead : n_lead + D]
    k_shape = v.shape[n_lead + D :]
    lead = v.shape[:n_lead]
    comp = v.reshape(lead + sp + (-1,))
    # split every spatial axis into (n/p, p)
    shp = list(lead)
    for n in sp:
        shp += [n // patch_len, patch_len]
    shp += [comp.shape[-1]]
    t = comp.reshape(shp)
    nl = len(lead)
    outer = [nl + 2 * i for i in range(D)]
    inner = [nl + 2 * i + 1 for i in range(D)]
    t = np.transpose(t, list(range(nl)) + outer + inner + [len(shp) - 1])
    t = t.reshape(t.shape[: nl + D] + (patch_len**D, comp.shape[-1]))
    norms = np.sqrt((t**2).sum(-1))
    order = np.argsort(-norms, axis=-1)
    top = np.take_along_axis(norms, order[..., :1], -1)[..., 0]
    second = np.take_along_axis(norms, order[..., 1:2], -1)[..., 0]
    t1 = np.take_along_axis(t, order[..., :1, None], -2)[..., 0, :]
    t2 = np.take_along_axis(t, order[..., 1:2, None], -2)[..., 0, :]
    unequal = np.abs(t1 - t2).max(-1) > 1e-12 * np.maximum(1.0, top)
    close = (top - second) <= rel * np.maximum(top, 1e-30)
    return bool(np.any(close & unequal))


# ---- ConvContract configurations (C06 / C11) -------------------------------------------------
def gen_layer_cfg(rng, D, equivariant_domain=True, allow_stride=False, group="B", equal_channels=False, stratum=None):
    """A random ConvContract configuration (JSON-able) inside the documented domain. `stratum` (an integer, normally the
    case index) fixes the boundary-flag kind and the padding kind by a covering schedule, so that every (flags x padding)
    cell is visited every 24 cases whatever the random stream does (a generator change must not silently empty a cell)."""
    from .ref import conv as rconv

    if stratum is not None and D == 3 and stratum % 16 == 8:
        # high-order stratum: tensor orders beyond the k<=2 of the everyday signatures, through the single-pixel bank (the only
        # size at which order-5 filters are cheap): (2,0),(3,1) -> (3,1),(2,0) uses the filter types (4,0) and (5,1), i.e.
        # 3^5 = 243 filter components per pixel, with several channels per type (code paths gated on that product)
        cin, cout = rng.permutation([2, 3, 4])[:2], rng.permutation([1, 2, 3])[:2]
        if equal_channels:
            cin, cout = [int(cin[0])] * 2, [int(cout[0])] * 2
        ins, outs = [[2, 0], [3, 1]], [[3, 1], [2, 0]]
        if rng.integers(0, 2):
            ins, outs = ins[::-1], outs
        tor_kind = ["all", "none", "mixed"][(stratum // 16) % 3]
        torus = [True] * 3 if tor_kind == "all" else ([False] * 3 if tor_kind == "none" else [bool(v) for v in rng.permutation([True, False, bool(rng.integers(0, 2))])])
        pk = [None, "TORUS", "SAME", "VALID"][int(rng.integers(4))]
        return {"D": 3, "M": 1, "in_sig": [[t, int(c)] for t, c in zip(ins, cin)], "out_sig": [[t, int(c)] for t, c in zip(outs, cout)], "ks": [4, 5], "drop": None,
                "bias": ["auto", "mean", "scalar", True, False][int(rng.integers(5))], "padding": pk, "pad_kind": str(pk), "lhs": None, "rhs": 1, "stride": 1, "torus": torus,
                "torus_kind": tor_kind, "sp": [int(v) for v in rng.integers(2, 4, size=3)], "group": group, "high_order": True}
    for _ in range(100):
        M = int([3, 3, 3, 2, 5, 1][int(rng.integers(6))]) if D == 2 else int([3, 3, 2, 1][int(rng.integers(4))])
        # long-reach stratum (every sixth case when a stratum is given): odd filter, no image dilation, wrap padding, dilation 3-4
        # on a 2-4 pixel image, so that the filter reach exceeds the extent on a toroidal axis
        forced_long = stratum is not None and stratum % 6 == 5
        mixed = stratum is not None and stratum % 16 == 3 and D == 2  # mixed-size bank stratum (see the end of the loop)
        if mixed:
            M, forced_long = 3, False
        if forced_long:
            M = 3 if (D == 3 or rng.integers(0, 2)) else 5
        kmax_t = 2 if D == 2 else 1
        if M == 5:
            kmax_t = 1
        pool = [(k, p) for k in range(kmax_t + 1) for p in (0, 1)]
        n_in, n_out = int(rng.integers(1, 4)), int(rng.integers(1, 4))
        ins = [pool[i] for i in rng.choice(len(pool), size=min(n_in, len(pool)), replace=False)]
        outs = [pool[i] for i in rng.choice(len(pool), size=min(n_out, len(pool)), replace=False)]
        cin = rng.permutation([1, 2, 3, 4])[: len(ins)]
        cout = rng.permutation([1, 2, 3, 4])[: len(outs)]
        if equal_channels and stratum is not None and stratum % 2 == 1 and len(outs) >= 2:
            # both parities of one tensor order among the targets, the pseudo-type listed first (no extra draw): two blocks of
            # equal shape that only their key tells apart (seeded change C06h swapped exactly such a pair)
            if not any(a[0] == b[0] and a != b for a in outs for b in outs):
                outs[1] = (outs[0][0], 1 - outs[0][1])
            outs = sorted(outs, key=lambda t: (t[0], -t[1]))
        if equal_channels:  # the common real-world case: every input type c channels, every target type c' channels
            wide = rng.integers(0, 4) == 0  # sometimes wide (64): code paths gated on the channel count
            cin = [64 if wide else int(cin[0])] * len(ins)
            cout = [64 if wide else int(cout[0])] * len(outs)
        in_sig = [[list(t), int(c)] for t, c in zip(ins, cin)]
        out_sig = [[list(t), int(c)] for t, c in zip(outs, cout)]
        ks = list(range(0, 2 * kmax_t + 1))
        drop = None
        if rng.integers(0, 4) == 0:
            drop = [int(rng.integers(0, 2 * kmax_t + 1)), int(rng.integers(0, 2))]
        bias = ["auto", "mean", "scalar", True, False][int(rng.integers(5))]
        even = M % 2 == 0
        lhs = None
        if rng.integers(0, 4) == 0 and not forced_long and not mixed:
            lhs = [2] * D
        pads = ["VALID", "explicit"] if even else ([None, "TORUS", "SAME", "VALID", "explicit", "explicit"] if lhs is not None else [None, "TORUS", "SAME", "VALID", "explicit", None, "TORUS", "SAME"])
        pk = pads[int(rng.integers(len(pads)))]
        if stratum is not None and not even:
            want_pk = [None, "TORUS", "SAME", "VALID", "explicit", None, "TORUS", None][(stratum // 3) % 8]
            if forced_long:
                want_pk = [None, "TORUS"][(stratum // 6) % 2]
            pk = want_pk if want_pk in pads else pk
        if mixed:
            pk = ["SAME", None, "TORUS"][(stratum // 16) % 3]
        padding = pk
        if pk == "explicit":
            q = int(rng.integers(0, 3)) if lhs is None else int(rng.integers(1, 3))
            padding = [[q, q]] * D
        rhs = int(rng.integers(1, 3))
        long_reach = (rng.integers(0, 5) == 0 or forced_long) and not mixed  # filter reach ((M-1)//2)*dilation beyond the image extent (small images under a DilResNet)
        if long_reach:
            rhs = int(rng.integers(3, 5))
        rhs = rhs if rng.integers(0, 2) else [rhs] * D
        stride = 1
        if allow_stride and rng.integers(0, 3) == 0 and not mixed:
            stride = int(rng.integers(1, 3)) if rng.integers(0, 2) else [int(v) for v in rng.integers(1, 3, size=D)]
        tor_kind = ["all", "none", "mixed"][int(rng.integers(3))]
        torus = [True] * D if tor_kind == "all" else ([False] * D if tor_kind == "none" else [bool(v) for v in rng.integers(0, 2, size=D)])
        if stratum is not None:
            tor_kind = ["all", "none", "mixed"][stratum % 3]
            if forced_long:
                tor_kind = ["all", "mixed"][(stratum // 12) % 2]
            if tor_kind == "mixed":  # genuinely mixed: at least one toroidal and one non-toroidal axis
                torus = [bool(v) for v in rng.permutation([True, False] + [bool(rng.integers(0, 2)) for _ in range(D - 2)])]
            else:
                torus = [tor_kind == "all"] * D
        hi = 6 if D == 2 else 4
        sp = [int(v) for v in rng.integers(3 if not even else 2, hi + 1, size=D)]
        if long_reach:
            sp = [int(v) for v in rng.integers(2, 5, size=D)]
        if rng.integers(0, 3) == 0:
            sp = [sp[0]] * D
        pad_t = tuple(tuple(p) for p in padding) if isinstance(padding, list) else padding
        try:
            osp = rconv.out_extents(tuple(sp), (M,) * D, tuple(torus), stride if isinstance(stride, int) else tuple(stride), pad_t, None if lhs is None else tuple(lhs), rhs if isinstance(rhs, int) else tuple(rhs))
        except ValueError:
            continue
        if min(osp) < 1 or int(np.prod(osp)) > 600:
            continue
        out = {"D": D, "M": M, "in_sig": in_sig, "out_sig": out_sig, "ks": ks, "drop": drop, "bias": bias, "padding": padding, "pad_kind": str(pk), "lhs": lhs, "rhs": rhs, "stride": stride, "torus": torus, "torus_kind": tor_kind, "sp": sp, "group": group}
        if mixed:
            # a hand-merged bank whose filter types have different side lengths (3x3 for some orders, 5x5 for the others): the case
            # the layer's per-pair convolution exists for; with a string padding every pair still returns the input extents
            out["mixed_M"] = {str(k_): int(rng.choice([3, 5])) for k_ in ks}
            if len(set(out["mixed_M"].values())) == 1:
                out["mixed_M"][str(ks[int(rng.integers(len(ks)))])] = 8 - out["mixed_M"][str(ks[0])]
        return out
    raise RuntimeError("no layer cfg")


def sig_of(js):
    return [((int(t[0]), int(t[1])), int(c)) for t, c in js]


def build_bank(cfg, source="ref"):
    import ginjax.geometric as geom

    D, M = cfg["D"], cfg["M"]
    if cfg.get("mixed_M"):
        data = {}
        for k_, M_ in cfg["mixed_M"].items():
            part = (ref_bank if source == "ref" else lib_bank)(D, int(M_), (int(k_),), (0, 1), cfg.get("group", "B"))
            data.update({t: v for t, v in part.data.items()})
        drop = tuple(cfg["drop"]) if cfg.get("drop") else None
        return geom.MultiImage({t: v for t, v in sorted(data.items()) if t != drop}, D, True)
    full = (ref_bank if source == "ref" else lib_bank)(D, M, tuple(cfg["ks"]), (0, 1), cfg.get("group", "B"))
    drop = tuple(cfg["drop"]) if cfg.get("drop") else None
    data = {t: v for t, v in full.data.items() if t != drop}
    return geom.MultiImage(data, D, True)


def build_layer(cfg, bank, key_int):
    import jax
    import ginjax.ml as ml

    padding = cfg["padding"]
    if isinstance(padding, list):
        padding = tuple((int(a), int(b)) for a, b in padding)
    lhs = None if cfg["lhs"] is None else tuple(cfg["lhs"])
    rhs = cfg["rhs"] if isinstance(cfg["rhs"], int) else tuple(cfg["rhs"])
    stride = cfg["stride"] if isinstance(cfg["stride"], int) else tuple(cfg["stride"])
    return ml.ConvContract(signature(sig_of(cfg["in_sig"])), signature(sig_of(cfg["out_sig"])), bank, cfg["bias"], stride, padding, lhs, rhs, jax.random.PRNGKey(key_int))


def sensitivity(f, x, rng, rel=1e-5, rels=None):
    """kappa = (trace-normalised output change) / (relative input perturbation): conditioning of f at x.
    Normalisation layers respond non-linearly (a weak direction is amplified more the smaller the perturbation), so
    the estimate is the maximum over several perturbation sizes down to 1e-5 (below that float32 noise dominates)."""
    import jax.numpy as jnp
    import ginjax.geometric as geom

    S_in = max(trace_scale(x), 1e-30)
    y = f(x)
    S = trace_scale(x, y)
    Y = probes.blocks(y)
    worst = 0.0
    for r in (rels or sorted({rel, 1e-4, 1e-5})):
        xp = geom.MultiImage({t: v + jnp.asarray((r * S_in * rng.normal(size=v.shape)).astype(np.float32)) for t, v in x.data.items()}, x.D, x.is_torus)
        d, msg = compare(f(xp), Y, None, S)
        if msg is not None:
            return float("inf")
        worst = max(worst, d / r)
    return worst


# ---- model configurations (C07 / C09 / C13 / C14 / C20) --------------------------------------
def bank_types(D, M, ks, group="B"):
    return set(ref_bank(D, M, tuple(ks), (0, 1), group).data.keys())


def reachable(in_types, target_types, btypes):
    """Target types emitted by a ConvContract: those with an available filter type from some present input type."""
    return [t for t in target_types if any(((s[0] + t[0]), (s[1] + t[1]) % 2) in btypes for s in in_types)]


def type_flow(cfg):
    """Simulates the type sets along the architecture. Returns (stable: bool, out_types in requested order
    restricted to reachable, note). 'stable' = every ConvContract emits all its requested target types."""
    D = cfg["D"]
    bt = bank_types(D, 3, cfg["bank_ks"], cfg.get("group", "B")) - {tuple(t) for t in cfg.get("bank_drop", [])}
    ut = bank_types(D, 2, cfg["bank_ks"], cfg.get("group", "B")) - {tuple(t) for t in cfg.get("bank_drop", [])}
    ins = [tuple(t) for t, _ in cfg["in_sig"]]
    outs = [tuple(t) for t, _ in cfg["out_sig"]]
    mids = list(dict.fromkeys(ins + outs)) if cfg.get("mid") is None else [tuple(t) for t, _ in cfg["mid"]]
    stable = True
    notes = []

    def step(cur, target, b=bt, what=""):
        nonlocal stable
        em = reachable(cur, target, b)
        if set(em) != set(target):
            stable = False
            notes.append(f"{what}: {sorted(set(target) - set(em))} unreachable from {sorted(cur)}")
        return em

    cls = cfg["cls"]
    if cls in ("ConvBlock", "ConvBlockPre"):
        out = step(ins, outs, what="conv")
        return stable, out, notes
    if cls in ("ResNet", "DilResNet"):
        cur = step(ins, mids, what="encoder0")
        cur = step(cur, mids, what="encoder1")
        for b in range(cfg["num_blocks"]):
            start = cur
            nconv = 7 if cls == "DilResNet" else cfg["num_conv"]
            for c in range(nconv):
                cur = step(cur, mids, what=f"block{b}.{c}")
            if set(cur) != set(start):
                stable = False
                notes.append(f"residual sum of different type sets {sorted(start)} vs {sorted(cur)}")
        cur = step(cur, mids, what="decoder0")
        out = step(cur, outs, what="decoder1")
        return stable, out, notes
    if cls == "UNet":
        cur = step(ins, mids, what="embed0")
        for c in range(1, cfg["num_conv"]):
            cur = step(cur, mids, what=f"embed{c}")
        skips = []
        for d in range(cfg["num_downsamples"]):
            skips.append(cur)
            for c in range(cfg["num_conv"]):
                cur = step(cur, mids, what=f"down{d}.{c}")
        for d in range(cfg["num_downsamples"]):
            up = step(cur, mids, b=ut, what=f"up{d}")
            skip = skips.pop()
            if set(up) != set(skip):
                stable = False
                notes.append(f"U-Net skip concat: a type present in exactly one of the two branches ({sorted(set(up) ^ set(skip))})")
            cur = list(dict.fromkeys(list(up) + list(skip)))
            for c in range(cfg["num_conv"]):
                cur = step(cur, mids, what=f"upconv{d}.{c}")
        out = step(cur, outs, what="decode")
        return stable, out, notes
    raise ValueError(cls)


def gen_model_cfg(rng, D, classes=("UNet", "UNet", "ResNet", "ResNet", "DilResNet", "ConvBlock", "ConvBlockPre"), stable_only=True, allow_norm=True, equivariant=True):
    for _ in range(300):
        cls = classes[int(rng.integers(len(classes)))]
        norm = bool(rng.integers(0, 2)) and allow_norm and cls != "ConvBlock0"
        kmax = 1 if (norm or D == 3) else 2
        pool = [(k, p) for k in range(kmax + 1) for p in (0, 1)]
        ins = [pool[i] for i in rng.choice(len(pool), size=int(rng.integers(1, 3)), replace=False)]
        if cls == "ConvBlockPre":
            outs = list(ins)
        else:
            outs = [pool[i] for i in rng.choice(len(pool), size=int(rng.integers(1, 3)), replace=False)]
        cin = [int(v) for v in rng.permutation([1, 2, 3])[: len(ins)]]
        cout = cin if cls == "ConvBlockPre" else [int(v) for v in rng.permutation([1, 2, 3])[: len(outs)]]
        cfg = {
            "cls": cls, "D": D, "equivariant": equivariant,
            "in_sig": [[list(t), c] for t, c in zip(ins, cin)], "out_sig": [[list(t), c] for t, c in zip(outs, cout)],
            "depth": int(rng.integers(1, 3)), "num_blocks": int(rng.integers(1, 3)) if cls != "DilResNet" else 1,
            "num_conv": int(rng.integers(1, 3)), "num_downsamples": int(rng.integers(1, 3)) if D == 2 else 1,
            "activation": [None, "relu", "gelu", "tanh"][int(rng.integers(4))], "norm": norm,
            "preact": bool(rng.integers(0, 2)), "bias": ["auto", "mean", "scalar", False, True][int(rng.integers(5))],
            "bank_ks": list(range(0, 2 * kmax + 1)), "torus": [bool(rng.integers(0, 2))] * D if rng.integers(0, 4) else [bool(v) for v in rng.integers(0, 2, size=D)],
        }
        if cls == "UNet":
            # with normalisation the coarsest level keeps at least 2 pixels per axis (statistics over a single pixel are degenerate)
            lo = 2 if norm else 1
            cfg["N"] = [2 ** cfg["num_downsamples"] * int(rng.integers(lo, 3))] * D if D == 2 else [4] * D
            if rng.integers(0, 3) == 0 and D == 2:
                cfg["N"] = [2 ** cfg["num_downsamples"] * int(v) for v in rng.integers(lo, 3, size=D)]
        else:
            cfg["N"] = [int(v) for v in (rng.integers(3, 7, size=D) if D == 2 else rng.integers(3, 5, size=D))]
            if rng.integers(0, 2):
                cfg["N"] = [cfg["N"][0]] * D
        # explicit mid_keys (a constructor setting of the three model classes): the union in another order, sometimes with
        # one more type; U-Net levels derive their channels from `depth`, so its mid channels equal depth
        if equivariant and cls in ("UNet", "ResNet", "DilResNet") and rng.integers(0, 4) == 0:
            mids = list(dict.fromkeys(ins + outs))
            extra = [t for t in pool if t not in mids]
            if extra and rng.integers(0, 2):
                mids.append(extra[int(rng.integers(len(extra)))])
            mids = [mids[i] for i in rng.permutation(len(mids))]
            cfg["mid"] = [[list(t), cfg["depth"] if cls == "UNet" else int(rng.integers(1, 4))] for t in mids]
        if not equivariant:
            cfg["kernel_size"] = 3
        if equivariant:
            stable, out, notes = type_flow(cfg)
            if stable_only and not stable:
                continue
            cfg["stable"] = stable
        return cfg
    raise RuntimeError("no model cfg")


def build_model(cfg, key_int):
    import jax
    import ginjax.models as models

    D = cfg["D"]
    in_sig, out_sig = signature(sig_of(cfg["in_sig"])), signature(sig_of(cfg["out_sig"]))
    key = jax.random.PRNGKey(key_int)
    kw = {"equivariant": cfg.get("equivariant", True), "use_bias": cfg["bias"]}
    if kw["equivariant"]:
        drop = {tuple(t) for t in cfg.get("bank_drop", [])}
        bank = ref_bank(D, cfg.get("conv_M", 3), tuple(cfg["bank_ks"]), (0, 1), cfg.get("group", "B"))
        up = ref_bank(D, cfg.get("up_M", 2), tuple(cfg["bank_ks"]), (0, 1), cfg.get("group", "B"))
        if drop:
            import ginjax.geometric as geom

            bank = geom.MultiImage({t: v for t, v in bank.data.items() if t not in drop}, D, True)
            up = geom.MultiImage({t: v for t, v in up.data.items() if t not in drop}, D, True)
        kw["conv_filters"] = bank
    else:
        kw["kernel_size"] = cfg.get("kernel_size", 3)
    cls = cfg["cls"]
    act = cfg["activation"]
    if cfg.get("mid") and kw["equivariant"] and cls in ("UNet", "ResNet", "DilResNet"):
        kw["mid_keys"] = signature(sig_of(cfg["mid"]))
    if cls in ("ConvBlock", "ConvBlockPre"):
        return models.ConvBlock(D, in_sig, out_sig, activation_f=act, use_group_norm=cfg["norm"], preactivation_order=(cls == "ConvBlockPre"), key=key, **kw)
    if cls == "ResNet":
        return models.ResNet(D, in_sig, out_sig, depth=cfg["depth"], num_blocks=cfg["num_blocks"], num_conv=cfg["num_conv"], activation_f=act, use_group_norm=cfg["norm"], preactivation_order=cfg["preact"], key=key, **kw)
    if cls == "DilResNet":
        return models.DilResNet(D, in_sig, out_sig, depth=cfg["depth"], num_blocks=cfg["num_blocks"], activation_f=act, use_group_norm=cfg["norm"], key=key, **kw)
    if cls == "UNet":
        if kw["equivariant"]:
            kw["upsample_filters"] = up
        return models.UNet(D, in_sig, out_sig, depth=cfg["depth"], num_downsamples=cfg["num_downsamples"], num_conv=cfg["num_conv"], activation_f=act, use_group_norm=cfg["norm"], key=key, **kw)
    raise ValueError(cls)


def near_singular_norm_input(layer, x, D, ratio=1e-2):
    """Genericity guard of C08/C07 for the normalisation layers (the property's own side condition 'covariance not
    near-singular'): True if, for some k=1 block and channel group, the smallest eigenvalue of the covariance the
    whitening inverts is below `ratio` times the largest (the null direction is then rounding noise amplified by up to
    1/sqrt(eps)=316 per layer), or if a k=0 group has (numerically) zero variance."""
    groups = int(getattr(layer, "groups", 1))
    for (k, p), blk in x.data.items():
        v = np.asarray(blk, dtype=np.float64)
        c = v.shape[0]
        if c % groups:
            continue
        g = v.reshape((groups, c // groups) + v.shape[1:])
        for gi in range(groups):
            if k == 1:
                X = g[gi] - g[gi].mean(axis=tuple(range(0, 1 + D)), keepdims=True)
                X = X.reshape(-1, D)
                w = np.linalg.eigvalsh(X.T @ X / max(1, len(X)))
                if w[-1] <= 0 or w[0] < ratio * w[-1]:
                    return True
            elif k == 0:
                var = g[gi].var()
                if var < 1e-6 * max(1e-30, float(np.max(np.abs(g[gi])) ** 2)):
                    return True
    return False
