"""Regenerates /verif/MANIFEST.json from the check modules that exist (python -m vmon.manifest)."""
from __future__ import annotations

import importlib
import json
import os

VERIF = os.path.dirname(os.path.dirname(os.path.abspath(__file__)))
ALL = [f"C{n:02d}" for n in range(1, 21)]

SETUP = (
    "/venv/bin/pip install -q --no-index --find-links /opt/veriftools/wheels --target /verif/.deps --no-deps "
    "icontract asttokens six >/dev/null 2>&1; cd /verif && /venv/bin/python -m vmon.selftest"
)
BASELINE = "cd /repo && /venv/bin/python -m pytest -ra -q -p no:cacheprovider --timeout=900 --continue-on-collection-errors"

TECHNIQUE = {
    "C01": "runtime monitoring: paired-execution (2-safety) monitor on the real geom.convolve with a NumPy reference group action; integer-exact lattice and basis x basis operands; R-monitor on every convolve return",
    "C02": "runtime monitoring: reference-model postcondition on every return of the three times_group_element entry points + group-law trace checks (identity, composition, inverse, linearity, bijection with unique ids)",
    "C03": "runtime monitoring: postcondition contract on get_unique_invariant_filters (invariance under a reference action, exact rational rank, integer character formula) over a finite swept space",
    "C04": "runtime monitoring: reference-model postcondition (direct-sum convolution) on every return of convolve/convolve_contract under a random product of option sets; repository suite re-run under the monitor",
    "C05": "runtime monitoring: paired node-by-node trace comparison of random typed expression trees evaluated by the real operators on L and g.L",
    "C06": "runtime monitoring: paired-execution monitor on ConvContract.__call__ with perturbed parameters and harness-built invariant banks",
    "C07": "runtime monitoring: class-level probes record the layer-by-layer trace of real model runs; layer-synchronised and end-to-end paired-execution oracles with conditioning-aware thresholds",
    "C08": "runtime monitoring: paired-execution monitor on the real normalisation / nonlinearity / pooling blocks with random parameters, near-tie and conditioning guards",
    "C09": "runtime monitoring: invariant at a hook (bank-ratio after every real train_step) + paired-execution monitors on the model returned by the real ml.train and on the amplified parameter displacement",
    "C10": "runtime monitoring: paired-execution monitor on GroupAverage/Climate1D with adversarial recording inner models; unique-id history check of to1d/from1d",
    "C11": "runtime monitoring: reference-model postcondition on every ConvContract.__call__ (defining sum + bias rule evaluated in NumPy from the layer's own state), also inside whole model runs",
    "C12": "runtime monitoring: class-level recorders on MultiImage arithmetic with unique-id payloads over random construction histories (history checker + per-type reference)",
    "C13": "runtime monitoring: unique-id history checker over random nested chains of inverse re-layout pairs; icontract structural invariant at every MultiImage method exit; bitwise save/load comparison",
    "C14": "runtime monitoring: per-entry comparison of multi-image operations with the single-image operation and NumPy references; vmap-vs-single and replace-the-others paired executions",
    "C15": "runtime monitoring: forwarding recorders on the windowing functions; unique-id frames compared with the window table of the statement (complete sweep of the tuple space in thorough)",
    "C16": "runtime monitoring: the model is the probe (records every input, answers with fresh unique ids); sliding-window reference over the recorded history",
    "C17": "runtime monitoring: recorder on get_batches; unique sample ids decode every batch (exactly-once, alignment, order)",
    "C18": "runtime monitoring: reference-model postcondition on the three losses + order/jit/zero/non-negativity/invariance trace laws",
    "C19": "runtime monitoring: state-machine checker stepped in lock-step with StopCondition.stop over exhaustively enumerated loss histories; real ml.train runs under a logical-step watchdog",
    "C20": "runtime monitoring: type-flow oracle along the recorded layer trace of real model runs; icontract structural invariant; unique-id check of the conventional flatten/unflatten",
}

PENDING_REASON = "check not built yet in this session (planned in DESIGN.md section 3); not claimed until its monitor exists"


def level_text(mod):
    doc = " ".join((mod.__doc__ or "").split())
    ex = getattr(mod, "EXHAUSTIVE", {})
    tail = (
        " Assurance: the property held on every monitored execution of the real code in the run (counts, histograms of the visited "
        "option cells, reachability of the anchored functions and sample cases are in the evidence file); nothing is claimed about "
        "executions that were not produced. "
    )
    if ex and ex.get("thorough"):
        tail += "The discrete quantifier of this property is finite up to the stated bound and is swept completely; the values are exact, so within the bound the verdict is complete."
    else:
        tail += "Exploration is the right level because the property quantifies over real-valued operands and an option/architecture product that cannot be enumerated; integer-exact data, complete bases for small configurations and generic points narrow the gap (DESIGN.md section 1)."
    return doc + tail


def build():
    checks, na = [], []
    for pid in ALL:
        try:
            mod = importlib.import_module(f"vmon.checks.{pid.lower()}")
        except ModuleNotFoundError:
            na.append({"property_id": pid, "reason": PENDING_REASON})
            continue
        if getattr(mod, "DISABLED", None):
            na.append({"property_id": pid, "reason": mod.DISABLED})
            continue
        checks.append(
            {
                "property_id": pid,
                "quick_cmd": f"./check {pid} quick",
                "thorough_cmd": f"./check {pid} thorough",
                "evidence_file": f"/verif/evidence/{pid}.json",
                "replay_cmd_template": f"./check {pid} --replay {{path}}",
                "engine": "vmon",
                "level_claimed": {
                    "category": "exploration",
                    "text": getattr(mod, "LEVEL_TEXT", "") or level_text(mod),
                    "design_ref": f"DESIGN.md section 3, {pid}",
                },
                "level_note": getattr(mod, "LEVEL_NOTE", "; ".join(getattr(mod, "ASSUMPTIONS", []))),
                "technique": TECHNIQUE.get(pid, "runtime monitoring"),
            }
        )
    man = {
        "version": 1,
        "setup_cmd": SETUP,
        "hooks": {
            "guard": "GINJAX_VERIF",
            "enable": "none needed: every probe is attached from the harness after import (the driver exports GINJAX_VERIF=1 but /repo contains no guarded code)",
            "baseline_off_cmd": BASELINE,
            "source_commits": [],
            "add_only": True,
        },
        "engines": [
            {
                "name": "vmon",
                "path": "/verif/vmon",
                "serves_properties": [c["property_id"] for c in checks],
                "kind_free_text": "runtime monitors (forwarding recorders, class-level probes, icontract invariants, sys.monitoring reachability) on the real ginjax callables; NumPy reference models; paired-execution and history checkers; sharded seeded workloads",
            }
        ],
        "checks": checks,
        "notes": "Every check imports ginjax from /repo/src of the current working tree (PYTHONPATH), nothing is cached between runs. Exit 0 held / 1 VIOLATION / 2 inconclusive. Known findings: /verif/known_findings.json (keyed by mechanism).",
        "not_applicable": na,
    }
    return man


def main():
    man = build()
    with open(os.path.join(VERIF, "MANIFEST.json"), "w") as f:
        json.dump(man, f, indent=1)
    print(f"MANIFEST.json: {len(man['checks'])} checks, {len(man['not_applicable'])} not_applicable")


if __name__ == "__main__":
    main()
