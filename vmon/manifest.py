"""Regenerates /verif/MANIFEST.json from the check modules that exist (python -m vmon.manifest)."""
from __future__ import annotations

import importlib
import json
import os

VERIF = os.path.dirname(os.path.dirname(os.path.abspath(__file__)))
ALL = [f"C{n:02d}" for n in range(1, 21)]

SETUP = (
    "/venv/bin/pip install -q --no-index --find-links /opt/veriftools/wheels --target /verif/.deps --no-deps "
    "icontract asttokens six >/dev/null 2>&1; cd /verif && /venv/bin/python -m vmon.selftest"
)
BASELINE = "cd /repo && /venv/bin/python -m pytest -ra -q -p no:cacheprovider --timeout=900 --continue-on-collection-errors"

PENDING_REASON = "check not built yet in this session (planned in DESIGN.md section 3); not claimed until its monitor exists"


def build():
    checks, na = [], []
    for pid in ALL:
        try:
            mod = importlib.import_module(f"vmon.checks.{pid.lower()}")
        except ModuleNotFoundError:
            na.append({"property_id": pid, "reason": PENDING_REASON})
            continue
        if getattr(mod, "DISABLED", None):
            na.append({"property_id": pid, "reason": mod.DISABLED})
            continue
        checks.append(
            {
                "property_id": pid,
                "quick_cmd": f"./check {pid} quick",
                "thorough_cmd": f"./check {pid} thorough",
                "evidence_file": f"/verif/evidence/{pid}.json",
                "replay_cmd_template": f"./check {pid} --replay {{path}}",
                "engine": "vmon",
                "level_claimed": {
                    "category": "exploration",
                    "text": getattr(mod, "LEVEL_TEXT", "") or (mod.__doc__ or "").strip().split("\n\n")[0],
                    "design_ref": f"DESIGN.md section 3, {pid}",
                },
                "level_note": getattr(mod, "LEVEL_NOTE", "; ".join(getattr(mod, "ASSUMPTIONS", []))),
                "technique": getattr(mod, "TECHNIQUE", "runtime monitoring: probes on the real callables + reference-model / paired-execution oracle over recorded events"),
            }
        )
    man = {
        "version": 1,
        "setup_cmd": SETUP,
        "hooks": {
            "guard": "GINJAX_VERIF",
            "enable": "none needed: every probe is attached from the harness after import (the driver exports GINJAX_VERIF=1 but /repo contains no guarded code)",
            "baseline_off_cmd": BASELINE,
            "source_commits": [],
            "add_only": True,
        },
        "engines": [
            {
                "name": "vmon",
                "path": "/verif/vmon",
                "serves_properties": [c["property_id"] for c in checks],
                "kind_free_text": "runtime monitors (forwarding recorders, class-level probes, icontract invariants, sys.monitoring reachability) on the real ginjax callables; NumPy reference models; paired-execution and history checkers; sharded seeded workloads",
            }
        ],
        "checks": checks,
        "notes": "Every check imports ginjax from /repo/src of the current working tree (PYTHONPATH), nothing is cached between runs. Exit 0 held / 1 VIOLATION / 2 inconclusive. Known findings: /verif/known_findings.json (keyed by mechanism).",
        "not_applicable": na,
    }
    return man


def main():
    man = build()
    with open(os.path.join(VERIF, "MANIFEST.json"), "w") as f:
        json.dump(man, f, indent=1)
    print(f"MANIFEST.json: {len(man['checks'])} checks, {len(man['not_applicable'])} not_applicable")


if __name__ == "__main__":
    main()
