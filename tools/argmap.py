#!/usr/bin/env python3
"""Which optional parameters of the library did the monitored workloads never set?  Runs the named tier of every check (or
the named checks) with VMON_ARGMAP set, merges the per-worker maps (vmon/reach.py ArgMap: on every entry of a ginjax function
the bound values are compared with the declared defaults) and writes /verif/argument_map.json.  Prints, per function that was
entered, the defaulted parameters that never received a non-default value.
Usage: tools/argmap.py [quick|thorough] [-j N] [Cxx ...]      (diagnostic; not a registered check)"""
import concurrent.futures as cf, glob, json, os, shutil, subprocess, sys, tempfile

VERIF = os.path.dirname(os.path.dirname(os.path.abspath(__file__)))
args = sys.argv[1:]
tier = args.pop(0) if args and args[0] in ("quick", "thorough") else "quick"
jobs = 2
if args[:1] == ["-j"]:
    jobs = int(args[1]); args = args[2:]
checks = args or [f"C{n:02d}" for n in range(1, 21)]
tmp = tempfile.mkdtemp(prefix="vmon_arg_", dir="/tmp")
outd = tempfile.mkdtemp(prefix="vmon_out_", dir="/tmp")
merged = {}


def one(c):
    env = {**os.environ, "VMON_ARGMAP": os.path.join(tmp, c), "VMON_OUT": os.path.join(outd, c)}
    r = subprocess.run(["./check", c, tier], cwd=VERIF, env=env, capture_output=True, text=True)
    return c, r.returncode


try:
    with cf.ThreadPoolExecutor(jobs) as ex:
        for c, rc in ex.map(one, checks):
            print(c, "exit", rc, flush=True)
            for p in glob.glob(os.path.join(tmp, c, "*.json")):
                for fn, rec in json.load(open(p)).items():
                    m = merged.setdefault(fn, {"calls": 0, "by": [], "params": {}})
                    m["calls"] += rec["calls"]
                    if rec["calls"] and c not in m["by"]:
                        m["by"].append(c)
                    for prm, (n, sample) in rec["params"].items():
                        s = m["params"].setdefault(prm, {"nondefault": 0, "sample": None, "by": []})
                        s["nondefault"] += n
                        if n and c not in s["by"]:
                            s["by"].append(c)
                        s["sample"] = s["sample"] or sample
finally:
    shutil.rmtree(tmp, ignore_errors=True)
    shutil.rmtree(outd, ignore_errors=True)
never = {fn: [p for p, s in m["params"].items() if not s["nondefault"]] for fn, m in merged.items() if m["calls"]}
never = {fn: ps for fn, ps in never.items() if ps}
summary = {"tier": tier, "checks": checks, "functions_with_defaults": len(merged), "entered": sum(1 for m in merged.values() if m["calls"]),
           "never_entered": sorted(fn for fn, m in merged.items() if not m["calls"]), "entered_but_parameter_never_set": never}
json.dump({"summary": summary, "functions": merged}, open(os.path.join(VERIF, "argument_map.json"), "w"), indent=1, sort_keys=True)
for fn, ps in sorted(never.items()):
    print(f"{fn}: never set: {', '.join(ps)}")
