#!/bin/bash
# tools/seed_eval.sh <seed-name> <dir-with-patch.diff+demo.py> "<test files>" <Cxx> [Cxx...]
# Confirms a seeded change (demo fails with it / passes without, named tests pass with it), then runs the named quick checks
# against a scratch copy carrying it. Copies patch+demo into /verif/seeded/<seed-name>/ and prints a summary for meta.json.
set -u
cd "$(dirname "$0")/.."
NAME=$1; SRC=$2; TESTS=$3; shift 3
mkdir -p seeded/$NAME
cp "$SRC/patch.diff" seeded/$NAME/patch.diff
cp "$SRC/demo.py" seeded/$NAME/demo.py
[ -f "$SRC/README.md" ] && cp "$SRC/README.md" seeded/$NAME/README.agent.md
SCR=$(mktemp -d /tmp/ginjax_seed_XXXX); OUTD=$(mktemp -d /tmp/vmon_out_XXXX)
rsync -a --exclude .git --exclude _mutation /repo/ "$SCR/"
(cd "$SCR" && patch -p1 -s < /verif/seeded/$NAME/patch.diff) || { echo "PATCH FAILED"; rm -rf "$SCR" "$OUTD"; exit 3; }
E="JAX_PLATFORMS=cpu MPLBACKEND=Agg"
env $E PYTHONPATH=/repo/src /venv/bin/python seeded/$NAME/demo.py > "$OUTD/demo_clean.log" 2>&1; echo "demo on unchanged tree: exit $?"
env $E PYTHONPATH=$SCR/src /venv/bin/python seeded/$NAME/demo.py > "$OUTD/demo_mut.log" 2>&1; echo "demo on changed tree:   exit $? ($(tail -1 $OUTD/demo_mut.log | cut -c1-160))"
if [ -n "$TESTS" ]; then
  (cd "$SCR" && env $E PYTHONPATH=$SCR/src /venv/bin/python -m pytest -q -p no:cacheprovider -n 4 $TESTS 2>&1 | tail -1)
fi
for c in "$@"; do
  VMON_REPO=$SCR VMON_OUT=$OUTD ./check "$c" quick > "$OUTD/$c.log" 2>&1
  echo "== $c quick exit=$? $(grep -m1 -E 'mechanism=' "$OUTD/$c.log" | cut -c1-260)"
done
rm -rf "$SCR" "$OUTD"
