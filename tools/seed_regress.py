#!/usr/bin/env python3
"""Regression over all seeded changes: applies each /verif/seeded/<name>/patch.diff to a scratch copy of /repo (outside /repo
and /verif), runs every quick check that the seed's meta.json records as catching it, and reports the checks that no longer
fire. Generator changes shift the random streams of the quick tiers; this run is what guarantees that the final checks still
catch every change recorded as caught.  Usage: tools/seed_regress.py [-j N] [name-substring ...]
Results: /verif/seed_regress_results.json"""
import concurrent.futures as cf, glob, json, os, re, shutil, subprocess, sys, tempfile

VERIF = os.path.dirname(os.path.dirname(os.path.abspath(__file__)))
args = sys.argv[1:]
jobs = 3
if args[:1] == ["-j"]:
    jobs = int(args[1]); args = args[2:]


def expected(meta):
    out = []
    for k, text in meta.get("checks", {}).items():
        m = re.match(r"(C\d\d) quick", k)
        if not m:
            continue
        pos = max([text.rfind(t) for t in ("exit 1", "caught")])
        neg = max([text.rfind(t) for t in ("exit 0", "missed", "MISSED", "held (")])
        if pos > neg:
            out.append(m.group(1))
    return out


def one(name):
    meta = json.load(open(os.path.join(VERIF, "seeded", name, "meta.json")))
    checks = expected(meta)
    if not checks:
        return name, {}, "no quick check recorded as catching it"
    scr = tempfile.mkdtemp(prefix="ginjax_regr_", dir="/tmp")
    outd = tempfile.mkdtemp(prefix="vmon_out_", dir="/tmp")
    res = {}
    try:
        subprocess.run(["rsync", "-a", "--exclude", ".git", "/repo/", scr + "/"], check=True)
        r = subprocess.run(["patch", "-p1", "-s", "-i", os.path.join(VERIF, "seeded", name, "patch.diff")], cwd=scr, capture_output=True, text=True)
        if r.returncode != 0:
            return name, {}, "patch does not apply to the current /repo: " + (r.stdout + r.stderr)[-200:]
        for c in checks:
            env = {**os.environ, "VMON_REPO": scr, "VMON_OUT": outd}
            r = subprocess.run(["./check", c, "quick"], cwd=VERIF, env=env, capture_output=True, text=True)
            mech = re.search(r"mechanism=([^:]+):", r.stdout)
            res[c] = {"exit": r.returncode, "mechanism": mech.group(1) if mech else None}
    finally:
        shutil.rmtree(scr, ignore_errors=True)
        shutil.rmtree(outd, ignore_errors=True)
    return name, res, None


names = sorted(os.path.basename(os.path.dirname(p)) for p in glob.glob(os.path.join(VERIF, "seeded", "*", "meta.json")))
if args:
    names = [n for n in names if any(a in n for a in args)]
path = os.path.join(VERIF, "seed_regress_results.json")
results = json.load(open(path)) if os.path.exists(path) else {}
with cf.ThreadPoolExecutor(jobs) as ex:
    for name, res, note in ex.map(one, names):
        lost = [c for c, r in res.items() if r["exit"] != 1]
        results[name] = {"checks": res, "note": note, "lost": lost}
        print(name, "OK" if not lost and not note else f"LOST {lost} {note or ''}", {c: r["exit"] for c, r in res.items()}, flush=True)
        json.dump(results, open(path, "w"), indent=1)
bad = {n: r for n, r in results.items() if r["lost"] or (r["note"] and "patch" in r["note"])}
print(f"{len(results)} seeds, {len(bad)} with a check that no longer fires: {sorted(bad)}")
