#!/usr/bin/env python3
"""Self-validation: applies hand-made property-breaking edits to a scratch copy of /repo (outside /repo and
/verif), runs the named quick checks against it (VMON_REPO / VMON_OUT) and records which checks fire.
Usage: tools/breaktests.py [name-substring ...]      (results: /verif/breaktests_results.json)"""
import json
import os
import shutil
import subprocess
import sys
import tempfile

VERIF = os.path.dirname(os.path.dirname(os.path.abspath(__file__)))
F = "src/ginjax/geometric/functional_geometric_image.py"
GI = "src/ginjax/geometric/geometric_image.py"
MI = "src/ginjax/geometric/multi_image.py"
CM = "src/ginjax/geometric/common.py"
LY = "src/ginjax/ml/layers.py"
LS = "src/ginjax/ml/losses.py"
SC = "src/ginjax/ml/stopping_conditions.py"
TR = "src/ginjax/ml/training.py"
MD = "src/ginjax/models.py"
DT = "src/ginjax/data.py"

# (name, [(file, old, new), ...], [checks expected to fire], [other checks to run])
TESTS = [
    ("C02-drop-det-parity", [(F, "    parity_flip = sign**parity  # if parity=1, the flip operators don't flip the tensors\n\n    rotated_spatial_dims", "    parity_flip = sign ** 0\n\n    rotated_spatial_dims")], ["C02"], ["C14"]),
    ("C02-g-transposed-on-tensor-index", [(F, 'einstr += ",".join([LETTERS[i + 13] + LETTERS[i + D] for i in range(k)])\n        tensor_inputs = (rotated_pixels,)', 'einstr += ",".join([LETTERS[i + D] + LETTERS[i + 13] for i in range(k)])\n        tensor_inputs = (rotated_pixels,)')], ["C02"], []),
    ("C03-skip-sign-normalisation", [(CM, "    filter_matrix = filter_matrix * leading_signs[:, None]\n", "    filter_matrix = filter_matrix * 1.0\n")], ["C03"], []),
    ("C03-drop-last-filter", [(CM, "    filters = [ff.rectify() for ff in filters]\n\n    return filters", "    filters = [ff.rectify() for ff in filters]\n\n    return filters[:-1] if len(filters) > 3 else filters")], ["C03"], []),
    ("C04-same-padding-ignores-dilation", [(F, "            return (((M - 1) // 2) * dilation, ((M - 1) // 2) * dilation)", "            return ((M - 1) // 2, (M - 1) // 2)")], ["C04"], ["C01"]),
    ("C04-filter-index-before-image-index", [(F, "        image_b_expanded = image_b_expanded.transpose(idxs)\n", "        image_b_expanded = image_b_expanded.transpose(idxs)\n        if img_b_k == 1 and img_a_k == 1:\n            image_a_expanded = jnp.swapaxes(image_a_expanded, -1, -2)\n            image_b_expanded = jnp.swapaxes(image_b_expanded, -1, -2)\n")], ["C04"], ["C01", "C05"]),
    ("C01-asymmetric-torus-wrap", [(F, '    expanded_image = jnp.pad(image, ((0, 0),) + torus_padding + ((0, 0),), mode="wrap")', '    torus_padding = tuple((lo + 1, hi - 1) if hi > 1 else (lo, hi) for lo, hi in torus_padding)\n    expanded_image = jnp.pad(image, ((0, 0),) + torus_padding + ((0, 0),), mode="wrap")')], ["C01", "C04"], ["C06"]),
    ("C05-levi-civita-parity-unchanged", [(GI, "multicontract(outer, zipped_indices), self.parity + 1, self.D, self.is_torus", "multicontract(outer, zipped_indices), self.parity, self.D, self.is_torus")], ["C05"], []),
    ("C05-norm-keeps-parity", [(GI, "return self.__class__(norm(self.D, self.data), 0, self.D, self.is_torus)", "return self.__class__(norm(self.D, self.data), self.parity, self.D, self.is_torus)")], ["C05"], []),
    ("C06-filter-parity-in-only", [(LY, "                filter_key = (in_k + out_k, (in_p + out_p) % 2)\n                if filter_key not in self.invariant_filters:", "                filter_key = (in_k + out_k, in_p % 2)\n                if filter_key not in self.invariant_filters:"), (LY, "                filter_key = (in_k + out_k, (in_p + out_p) % 2)\n\n                # (out_c,in_c,num_inv_filters)", "                filter_key = (in_k + out_k, in_p % 2)\n\n                # (out_c,in_c,num_inv_filters)")], ["C06"], ["C11", "C07"]),
    ("C06-additive-bias-on-vectors", [(LY, "                    biased_x.append(k, p, image + mean_image * self.bias[(k, p)])", "                    biased_x.append(k, p, image + (mean_image * 0 + 1) * self.bias[(k, p)])")], ["C06", "C11"], ["C07", "C09"]),
    ("C08-maxpool-comparator-first-component", [(F, "        comparator_patches = jnp.linalg.norm(patches, axis=0)  # (patch,num_patches)", "        comparator_patches = jnp.abs(patches[0])  # (patch,num_patches)")], ["C08"], ["C07"]),
    ("C08-cholesky-whitening", [(LY, 'D: int, image_block: jax.Array, groups: int, method: str = "eigh", eps: float = 1e-5', 'D: int, image_block: jax.Array, groups: int, method: str = "cholesky", eps: float = 1e-5')], ["C08"], ["C07"]),
    ("C08-vn-eps-one-component", [(LY, "                k_vec_normed = k_vec / (geom.norm(1 + self.D, k_vec, keepdims=True) + self.eps)", "                k_vec_normed = k_vec / (geom.norm(1 + self.D, k_vec, keepdims=True) + self.eps)\n                k_vec_normed = k_vec_normed.at[..., 0].multiply(1.05) if k == 1 else k_vec_normed")], ["C08"], ["C07"]),
    ("C09-remove-stop-gradient", [(LY, "                    jax.lax.stop_gradient(self.invariant_filters[filter_key]),\n                )\n\n                convolve_contracted_imgs", "                    self.invariant_filters[filter_key],\n                )\n\n                convolve_contracted_imgs")], ["C09"], ["C07"]),
    ("C10-group-average-no-transpose", [(MD, "rot_out_image = out_image.times_group_element(gg.T)", "rot_out_image = out_image.times_group_element(gg)")], ["C10"], []),
    ("C10-climate-second-branch-not-flipped-back", [(MD, "        ).times_group_element(equator_flip)\n\n        return (x1 + x2) / 2, aux_data", "        )\n\n        return (x1 + x2) / 2, aux_data")], ["C10"], []),
    ("C10-to1d-swaps-vector-components", [(MD, "                out.append(0, 1, image[..., 0])\n                out.append(0, 0, image[..., 1])", "                out.append(0, 1, image[..., 1])\n                out.append(0, 0, image[..., 0])")], ["C10"], []),
    ("C11-accumulate-assign", [(LY, "                    out[(out_k, out_p)] = convolve_contracted_imgs + out[(out_k, out_p)]", "                    out[(out_k, out_p)] = convolve_contracted_imgs")], ["C11"], ["C06"]),
    ("C12-eq-positional", [(MI, "            for key in self.keys():\n                if not jnp.allclose(self[key], other[key], rtol, atol):", "            for a, b in zip(self.values(), other.values()):\n                if a.shape != b.shape or not jnp.allclose(a, b, rtol, atol):")], ["C12"], []),
    ("C12-mul-first-block-only", [(MI, "        return self.__class__.from_vector(self.to_vector() * other, self)", "        first = next(iter(self.keys()))\n        return self.__class__({k: (v * other if (k == first or v.shape[0] > 1) else v) for k, v in self.items()}, self.D, self.is_torus)")], ["C12"], []),
    ("C13-concat-inverse-off-by-one", [(MI, "                b.append(k, parity, image_block[(slice(None),) * axis + (slice(-size, axis_size),)])", "                b.append(k, parity, image_block[(slice(None),) * axis + (slice(-size, axis_size),)] if axis == 0 else image_block[(slice(None),) * axis + (slice(-size - 1, axis_size - 1),)])")], ["C13"], ["C16"]),
    ("C13-flatten-drops-is-torus", [(MI, '        aux_data = {\n            "D": self.D,\n            "is_torus": self.is_torus,\n        }  # static values', '        aux_data = {\n            "D": self.D,\n        }  # static values')], ["C13"], ["C12"]),
    ("C13-from-scalar-moveaxis-offset", [(MI, "            out.append(k, parity, jnp.moveaxis(reshaped_data, -(1 + k), n_batch_axes))", "            out.append(k, parity, jnp.moveaxis(reshaped_data, -(1 + k), n_batch_axes) if k < 2 else jnp.swapaxes(jnp.moveaxis(reshaped_data, -(1 + k), n_batch_axes), -1, -2))")], ["C13"], ["C20"]),
    ("C14-norm-idx-shift", [(MI, "            out.append(0, 0, norm(n_lead_axes + self.D, image_block), axis=n_lead_axes - 1)", "            out.append(0, 0, norm(n_lead_axes + self.D - (1 if (k == 0 and n_lead_axes > 1) else 0), image_block, keepdims=True) if False else norm(n_lead_axes + self.D, image_block if k > 0 or n_lead_axes < 2 else jnp.roll(image_block, 1, axis=0)), axis=n_lead_axes - 1)")], ["C14"], []),
    ("C15-target-start-off-by-one", [(DT, "    first_start = past_steps * delta_t\n", "    first_start = past_steps * delta_t if delta_t == 1 else past_steps * delta_t - 1\n"), (DT, "    last_start = total_steps - (future_steps - 1) * delta_t\n", "    last_start = total_steps - (future_steps - 1) * delta_t if delta_t == 1 else total_steps - (future_steps - 1) * delta_t - 1\n")], ["C15"], []),
    ("C15-constants-appended-to-targets", [(DT, "        multi_image_x.append(k, parity, jnp.full((batch,) + image.shape, image), axis=1)\n", "        multi_image_x.append(k, parity, jnp.full((batch,) + image.shape, image), axis=1)\n        if (k, parity) not in multi_image_y:\n            multi_image_y.append(k, parity, jnp.full((batch,) + image.shape, image), axis=1)\n")], ["C15"], []),
    ("C16-drop-newest-instead-of-oldest", [(TR, "                [dynamic_input[(k, parity)][:, future_steps:], output[(k, parity)]], axis=1", "                [dynamic_input[(k, parity)][:, :-future_steps] if past_steps > 2 else dynamic_input[(k, parity)][:, future_steps:], output[(k, parity)]], axis=1")], ["C16"], []),
    ("C16-constants-before-dynamic", [(TR, "            new_input.append(k, parity, new_input_image)\n\n        if (k, parity) in constant_fields:\n            new_input.append(k, parity, constant_fields[(k, parity)])", "            if (k, parity) in constant_fields:\n                new_input.append(k, parity, constant_fields[(k, parity)])\n            new_input.append(k, parity, new_input_image)\n\n        elif (k, parity) in constant_fields:\n            new_input.append(k, parity, constant_fields[(k, parity)])")], ["C16"], []),
    ("C17-second-permutation-for-targets", [(TR, "        for j, multi_image in enumerate(multi_images):\n            batches[j].append(multi_image.get_subset(idxs).reshape_pmap(devices))", "        for j, multi_image in enumerate(multi_images):\n            jdx = idxs if (j == 0 or rand_key is None) else jnp.roll(idxs, j)\n            batches[j].append(multi_image.get_subset(jdx).reshape_pmap(devices))")], ["C17"], []),
    ("C17-ceil-batches", [(TR, "    for i in range(int(math.floor(L / batch_size))):", "    for i in range(int(math.ceil(L / batch_size))):")], ["C17"], []),
    ("C18-mean-over-channels", [(LS, "        loss = jnp.sum((image_a - image_b) ** 2, axis=tuple(range(1, image_a.ndim))) / spatial_size\n        loss_per_batch", "        loss = jnp.sum(jnp.mean((image_a - image_b) ** 2, axis=1), axis=tuple(range(1, image_a.ndim - 1))) / spatial_size\n        loss_per_batch")], ["C18"], []),
    ("C18-normalised-by-prediction-norm", [(LS, "        norm = geom.norm(multi_image_y.D + 2, img_block, keepdims=True) ** 2", "        norm = geom.norm(multi_image_y.D + 2, multi_image_x[(k, parity)], keepdims=True) ** 2")], ["C18"], []),
    ("C19-patience-ge", [(SC, "        return self.epochs_since_best > self.patience\n\n\nclass ValLoss", "        return self.epochs_since_best >= self.patience and self.epochs_since_best > 0\n\n\nclass ValLoss")], ["C19"], []),
    ("C19-best-model-not-updated", [(SC, "            self.best_val_loss = val_loss\n            self.best_model = model\n", "            self.best_val_loss = val_loss\n")], ["C19"], []),
    ("C19-improvement-le", [(SC, "        if train_loss < (self.best_train_loss - self.min_delta):", "        if train_loss <= (self.best_train_loss - self.min_delta):")], ["C19"], []),
    ("C20-decoder-emits-mid-keys", [(MD, "                D, mid_keys, output_keys, use_bias, None, equivariant, conv_filters, 1, key=subkey2\n            ),\n        ]\n\n    def __call__(\n        self: Self, x: geom.MultiImage, aux_data: Optional[eqx.nn.State] = None\n    ) -> tuple[geom.MultiImage, Optional[eqx.nn.State]]:\n        \"\"\"\n        Callable for this layer\n\n        args:\n            x: the input MultiImage\n            aux_data: unused, needed for compliance\n\n        returns:\n            the output MultiImage, aux_data", "                D, mid_keys, output_keys if not equivariant else geom.Signature(tuple((k_p, c + (1 if k_p[1] == 1 else 0)) for k_p, c in output_keys)), use_bias, None, equivariant, conv_filters, 1, key=subkey2\n            ),\n        ]\n\n    def __call__(\n        self: Self, x: geom.MultiImage, aux_data: Optional[eqx.nn.State] = None\n    ) -> tuple[geom.MultiImage, Optional[eqx.nn.State]]:\n        \"\"\"\n        Callable for this layer\n\n        args:\n            x: the input MultiImage\n            aux_data: unused, needed for compliance\n\n        returns:\n            the output MultiImage, aux_data")], ["C20"], []),
    ("C20-from-scalar-sorted-layout", [(MI, "        for (k, parity), num_channels in layout:\n            length = num_channels * (self.D**k)", "        for (k, parity), num_channels in sorted(layout):\n            length = num_channels * (self.D**k)")], ["C20", "C13"], []),
    ("C07-unet-upsample-asymmetric-padding", [(MD, "                padding = ((1, 1),) * self.D\n                stride = (1,) * self.D", "                padding = ((2, 0),) * self.D\n                stride = (1,) * self.D")], ["C07"], ["C09"]),
    ("C07-dilresnet-dilation-one-axis", [(MD, "                        rhs_dilation=(dilation,) * D,", "                        rhs_dilation=(dilation,) + (1,) * (D - 1),")], ["C07"], []),
    ("C13-checkpoint-saves-best-model", [(TR, "            save(save_model, model)\n", "            save(save_model, stop_condition.best_model)\n")], ["C13"], []),
    ("C13-from-vector-float32", [(MI, "vector[idx : (idx + img.size)].reshape(img.shape))", "vector[idx : (idx + img.size)].reshape(img.shape).astype(jnp.float32))")], ["C13"], ["C12"]),
    ("C17-mapped-batches-prepended", [(TR, "        out_maps.append(one_map)\n", "        out_maps.insert(0, one_map)\n")], ["C17"], []),
    ("C07-maxnormpool-no-norm-for-scalars-only-check", [(MD, "            down_layers = (ml.MaxNormPool(2, equivariant), [])", "            down_layers = (ml.MaxNormPool(2, False) if all(k == 0 for (k, _), _ in mid_keys) else ml.MaxNormPool(2, equivariant), [])")], ["C07"], []),
]


def main():
    sel = sys.argv[1:]
    results = {}
    res_path = os.path.join(VERIF, "breaktests_results.json")
    if os.path.exists(res_path):
        results = json.load(open(res_path))
    for name, edits, expect, others in TESTS:
        if sel and not any(s in name for s in sel):
            continue
        scr = tempfile.mkdtemp(prefix="ginjax_bt_", dir="/tmp")
        outd = tempfile.mkdtemp(prefix="vmon_bt_out_", dir="/tmp")
        try:
            subprocess.run(["rsync", "-a", "--exclude", ".git", "/repo/", scr + "/"], check=True)
            ok = True
            for rel, old, new in edits:
                p = os.path.join(scr, rel)
                s = open(p).read()
                if s.count(old) != 1:
                    print(f"{name}: edit anchor found {s.count(old)} times in {rel}", flush=True)
                    ok = False
                    break
                open(p, "w").write(s.replace(old, new))
            if not ok:
                results[name] = {"error": "anchor"}
                continue
            r = subprocess.run(["/venv/bin/python", "-c", "import ginjax.geometric, ginjax.ml, ginjax.models"], env={**os.environ, "PYTHONPATH": scr + "/src", "JAX_PLATFORMS": "cpu"}, capture_output=True, text=True)
            if r.returncode != 0:
                results[name] = {"error": "import: " + r.stderr[-300:]}
                print(name, "IMPORT ERROR", r.stderr[-300:], flush=True)
                continue
            row = {}
            for c in expect + others:
                env = {**os.environ, "VMON_REPO": scr, "VMON_OUT": outd}
                rr = subprocess.run([os.path.join(VERIF, "check"), c, "quick"], env=env, capture_output=True, text=True)
                mech = [l.strip() for l in rr.stdout.splitlines() if l.strip().startswith("mechanism=")][:1]
                row[c] = {"exit": rr.returncode, "expected": c in expect, "mechanism": (mech[0][:200] if mech else "")}
            results[name] = row
            print(name, {c: v["exit"] for c, v in row.items()}, "MISS" if any(v["expected"] and v["exit"] != 1 for v in row.values()) else "ok", flush=True)
        finally:
            shutil.rmtree(scr, ignore_errors=True)
            shutil.rmtree(outd, ignore_errors=True)
        json.dump(results, open(res_path, "w"), indent=1)


if __name__ == "__main__":
    main()
