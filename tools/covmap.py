#!/usr/bin/env python3
"""Which library code did the monitored workloads never execute?  Runs the named tier of every check (or the named checks)
with VMON_COVMAP set, merges the per-worker line maps (vmon/reach.py LineMap) and compares them with the executable
statement lines of /repo/src/ginjax (ast). Writes /verif/coverage_map.json and prints the functions with unexecuted lines.
Usage: tools/covmap.py [quick|thorough] [Cxx ...]      (diagnostic; not a registered check)"""
import ast, glob, json, os, shutil, subprocess, sys, tempfile

VERIF = os.path.dirname(os.path.dirname(os.path.abspath(__file__)))
REPO = os.environ.get("VMON_REPO", "/repo")
args = sys.argv[1:]
tier = args.pop(0) if args and args[0] in ("quick", "thorough") else "quick"
checks = args or [f"C{n:02d}" for n in range(1, 21)]
cov = tempfile.mkdtemp(prefix="vmon_cov_", dir="/tmp")
outd = tempfile.mkdtemp(prefix="vmon_out_", dir="/tmp")
per_check = {}
try:
    for c in checks:
        env = {**os.environ, "VMON_COVMAP": os.path.join(cov, c), "VMON_OUT": outd}
        r = subprocess.run(["./check", c, tier], cwd=VERIF, env=env, capture_output=True, text=True)
        print(c, "exit", r.returncode, flush=True)
        hit = {}
        for p in glob.glob(os.path.join(cov, c, "*.json")):
            for f, lines in json.load(open(p)).items():
                hit.setdefault(f, set()).update(lines)
        per_check[c] = hit
finally:
    shutil.rmtree(cov, ignore_errors=True)
    shutil.rmtree(outd, ignore_errors=True)

src = os.path.join(REPO, "src", "ginjax")
report, tot, totcov = {}, 0, 0
for path in sorted(glob.glob(os.path.join(src, "**", "*.py"), recursive=True)):
    rel = os.path.relpath(path, src)
    tree = ast.parse(open(path).read())
    funcs = []

    def walk(node, prefix):
        for ch in ast.iter_child_nodes(node):
            if isinstance(ch, (ast.FunctionDef, ast.AsyncFunctionDef)):
                funcs.append((prefix + ch.name, ch))
                walk(ch, prefix + ch.name + ".")
            elif isinstance(ch, ast.ClassDef):
                walk(ch, prefix + ch.name + ".")
            else:
                walk(ch, prefix)

    walk(tree, "")
    for q, fn in funcs:
        lines = set()
        for st in ast.walk(fn):
            if isinstance(st, ast.stmt) and st is not fn and not isinstance(st, (ast.FunctionDef, ast.ClassDef)):
                if isinstance(st, ast.Expr) and isinstance(getattr(st, "value", None), ast.Constant) and isinstance(st.value.value, str):
                    continue  # docstring
                lines.add(st.lineno)
        # lines of nested functions belong to them
        for q2, fn2 in funcs:
            if fn2 is not fn and q2.startswith(q + "."):
                lines -= {s.lineno for s in ast.walk(fn2) if isinstance(s, ast.stmt)}
        if not lines:
            continue
        got = set()
        by = []
        for c, hit in per_check.items():
            h = lines & hit.get(rel, set())
            if h:
                by.append(c)
            got |= h
        tot += len(lines)
        totcov += len(got)
        report[f"{rel}:{q}"] = {"stmts": len(lines), "executed": len(got), "missing_lines": sorted(lines - got), "checks": by}
summary = {"tier": tier, "checks": checks, "statement_lines": tot, "executed_under_monitors": totcov,
           "functions": len(report), "functions_never_entered": sorted(k for k, v in report.items() if v["executed"] == 0),
           "functions_partly_executed": {k: v["missing_lines"] for k, v in report.items() if 0 < v["executed"] < v["stmts"]}}
json.dump({"summary": summary, "functions": report}, open(os.path.join(VERIF, "coverage_map.json"), "w"), indent=1)
print(f"{totcov}/{tot} statement lines of src/ginjax executed under the monitors ({tier})")
print("never entered:")
for k in summary["functions_never_entered"]:
    print("   ", k)
print("partly executed:")
for k, v in summary["functions_partly_executed"].items():
    print("   ", k, v)
