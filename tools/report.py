#!/usr/bin/env python3
"""Fills the generated tables of DESIGN.md (between the BEGIN/END markers) from breaktests_results.json and
seeded/*/meta.json."""
import glob
import json
import os

VERIF = os.path.dirname(os.path.dirname(os.path.abspath(__file__)))


def breaktests_table():
    path = os.path.join(VERIF, "breaktests_results.json")
    if not os.path.exists(path):
        return "(not run yet)"
    res = json.load(open(path))
    rows = ["| break (hand-made edit of /repo on a scratch copy) | quick checks that fire (exit 1) | run, silent (exit 0) |", "|---|---|---|"]
    for name, row in res.items():
        if "error" in row:
            rows.append(f"| {name} | (edit did not apply: {row['error'][:60]}) | |")
            continue
        fired = [c for c, v in row.items() if v["exit"] == 1]
        silent = [f"{c}{' (expected to fire!)' if v['expected'] else ''}" for c, v in row.items() if v["exit"] == 0]
        other = [f"{c} exit {v['exit']}" for c, v in row.items() if v["exit"] not in (0, 1)]
        rows.append(f"| {name} | {', '.join(fired)} | {', '.join(silent + other)} |")
    return "\n".join(rows)


def seeds_table():
    rows = ["| seeded change (/verif/seeded/…) | property | what it needs to manifest | checks (quick tier) |", "|---|---|---|---|"]
    for mp in sorted(glob.glob(os.path.join(VERIF, "seeded", "*", "meta.json"))):
        m = json.load(open(mp))
        name = os.path.basename(os.path.dirname(mp))
        checks = "; ".join(f"{k}: {v}" for k, v in m.get("checks", {}).items())
        rows.append(f"| {name} | {m['property']} | {m.get('needs_to_manifest', '')} | {checks} |")
    return "\n".join(rows)


def main():
    p = os.path.join(VERIF, "DESIGN.md")
    s = open(p).read()
    for tag, fn in (("BREAKTESTS-TABLE", breaktests_table), ("SEEDS-TABLE", seeds_table)):
        b, e = f"<!-- {tag}-BEGIN -->", f"<!-- {tag}-END -->"
        i, j = s.index(b) + len(b), s.index(e)
        s = s[:i] + "\n" + fn() + "\n" + s[j:]
    open(p, "w").write(s)
    print("DESIGN.md tables updated")


if __name__ == "__main__":
    main()
