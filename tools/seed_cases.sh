#!/bin/bash
# tools/seed_cases.sh <seed-name> <Cxx> <tier> <selector>: tools/runcases.py against a scratch copy of /repo carrying seeded/<seed-name>/patch.diff
set -u
cd "$(dirname "$0")/.."
NAME=$1; shift
SCR=$(mktemp -d /tmp/ginjax_seed_XXXX)
rsync -a --exclude .git /repo/ "$SCR/"
(cd "$SCR" && patch -p1 -s < /verif/seeded/$NAME/patch.diff) || { echo "PATCH FAILED"; rm -rf "$SCR"; exit 3; }
VMON_REPO=$SCR tools/runcases.py "$@"
rm -rf "$SCR"
