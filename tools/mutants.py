#!/usr/bin/env python3
"""Systematic mutation run against the monitors (self-validation; complements the hand-made breaks and the seeded changes).

For a sample of single-point syntactic mutants of the library functions that run under some monitor (coverage_map.json gives, per
function, the checks whose workload executes it), apply the mutant to a scratch copy of /repo (outside /repo and /verif), run the quick
tier of those checks against it in fail-fast mode and record which fire. Survivors (no check fires) are listed for triage: they are
either equivalent mutants, or behaviour no monitor observes - the latter is what the tool is for.

Mutation operators: comparison boundary (< <=, > >=, == !=), + <-> -, small integer constants (0 1 2 -1), boolean constants, `x % n` -> x,
sorted(x) -> list(x), removal of `not`, swap of the two branches of a conditional expression, dropping one element-wise negative sign.
Nodes inside annotations, docstrings, asserts, raise statements and print/str helpers are not mutated.

Usage: tools/mutants.py [-n N] [-j J] [--seed S] [--only substr] [--max-checks K]      results: /verif/mutants_results.json
"""
import argparse, ast, concurrent.futures as cf, copy, json, os, random, re, shutil, subprocess, sys, tempfile, time

VERIF = os.path.dirname(os.path.dirname(os.path.abspath(__file__)))
SRC = "/repo/src/ginjax"

ap = argparse.ArgumentParser()
ap.add_argument("-n", type=int, default=60)
ap.add_argument("-j", type=int, default=2)
ap.add_argument("--seed", type=int, default=0)
ap.add_argument("--only", default="")
ap.add_argument("--max-checks", type=int, default=2)
ap.add_argument("--out", default=os.path.join(VERIF, "mutants_results.json"))
args = ap.parse_args()

SKIP_FUNCS = re.compile(r"plot|__str__|tensor_name|benchmark|count_params|utils\.py|fast_convolve|print")
# cheapest first: a mutant is run against at most --max-checks of the checks whose workload reaches the function, preferring
# the property the function is anchored in (first in this order) and cheap checks
ORDER = ["C19", "C16", "C17", "C12", "C13", "C15", "C18", "C02", "C04", "C01", "C05", "C14", "C03", "C08", "C11", "C06", "C10", "C20", "C07", "C09"]


class Finder(ast.NodeVisitor):
    """Collects mutable nodes (with a description of the replacement) inside one function."""

    def __init__(self):
        self.sites = []
        self.block = 0

    def generic_visit(self, node):
        if isinstance(node, (ast.Assert, ast.Raise, ast.AnnAssign)) and not isinstance(node, ast.AnnAssign):
            return
        if isinstance(node, ast.arguments):
            return  # defaults / annotations
        if isinstance(node, ast.Expr) and isinstance(node.value, ast.Constant) and isinstance(node.value.value, str):
            return
        if isinstance(node, ast.Call) and isinstance(node.func, ast.Name) and node.func.id in ("print", "ValueError", "isinstance"):
            return
        self.consider(node)
        if isinstance(node, ast.AnnAssign):
            if node.value is not None:
                self.visit(node.value)
            return
        if isinstance(node, (ast.FunctionDef, ast.AsyncFunctionDef)):
            for st in node.body:
                self.visit(st)
            return
        super().generic_visit(node)

    def consider(self, n):
        add = lambda kind: self.sites.append((n, kind))
        if isinstance(n, ast.Compare) and len(n.ops) == 1:
            if isinstance(n.ops[0], (ast.Lt, ast.LtE, ast.Gt, ast.GtE, ast.Eq, ast.NotEq)):
                add("cmp")
        elif isinstance(n, ast.BinOp):
            if isinstance(n.op, (ast.Add, ast.Sub)):
                add("addsub")
            elif isinstance(n.op, ast.Mod) and isinstance(n.right, ast.Constant):
                add("dropmod")
        elif isinstance(n, ast.Constant):
            if isinstance(n.value, bool):
                add("bool")
            elif isinstance(n.value, int) and -2 <= n.value <= 3:
                add("int")
        elif isinstance(n, ast.UnaryOp):
            if isinstance(n.op, ast.Not):
                add("dropnot")
            elif isinstance(n.op, ast.USub) and not isinstance(n.operand, ast.Constant):
                add("dropneg")
            elif isinstance(n.op, ast.USub) and isinstance(n.operand, ast.Constant) and isinstance(n.operand.value, int):
                add("negint")
        elif isinstance(n, ast.Call) and isinstance(n.func, ast.Name) and n.func.id == "sorted" and len(n.args) == 1 and not n.keywords:
            add("unsort")
        elif isinstance(n, ast.IfExp):
            add("swapif")


def mutate(node, kind, rnd):
    """Mutates the node in place, returns a description."""
    if kind == "cmp":
        m = {ast.Lt: ast.LtE, ast.LtE: ast.Lt, ast.Gt: ast.GtE, ast.GtE: ast.Gt, ast.Eq: ast.NotEq, ast.NotEq: ast.Eq}
        old = type(node.ops[0])
        node.ops[0] = m[old]()
        return f"{old.__name__}->{m[old].__name__}"
    if kind == "addsub":
        old = type(node.op)
        node.op = ast.Sub() if old is ast.Add else ast.Add()
        return f"{old.__name__}->{type(node.op).__name__}"
    if kind == "dropmod":
        return "x % n -> x"
    if kind == "bool":
        node.value = not node.value
        return f"{not node.value}->{node.value}"
    if kind == "int":
        old = node.value
        node.value = {0: 1, 1: rnd.choice([0, 2]), 2: rnd.choice([1, 3]), 3: 2, -1: -2, -2: -1}[old]
        return f"{old}->{node.value}"
    if kind == "negint":
        old = node.operand.value
        node.operand.value = old + 1
        return f"-{old}->-{old + 1}"
    if kind in ("dropnot", "dropneg"):
        return "unary operator removed"
    if kind == "unsort":
        node.func.id = "list"
        return "sorted(x)->list(x)"
    if kind == "swapif":
        node.body, node.orelse = node.orelse, node.body
        return "branches of conditional expression swapped"
    raise ValueError(kind)


class Replace(ast.NodeTransformer):
    def __init__(self, target, kind):
        self.target, self.kind = target, kind

    def visit(self, node):
        if node is self.target:
            if self.kind == "dropmod":
                return node.left
            if self.kind in ("dropnot", "dropneg"):
                return node.operand
        return super().visit(node)


def functions(tree):
    out = {}

    def walk(body, prefix):
        for st in body:
            if isinstance(st, (ast.FunctionDef, ast.AsyncFunctionDef)):
                out[prefix + st.name] = st
            elif isinstance(st, ast.ClassDef):
                walk(st.body, prefix + st.name + ".")

    walk(tree.body, "")
    return out


def build_pool(rnd):
    cov = json.load(open(os.path.join(VERIF, "coverage_map.json")))["functions"]
    pool = []
    for fq, info in cov.items():
        if not info.get("checks") or not info.get("executed") or SKIP_FUNCS.search(fq):
            continue
        if args.only and args.only not in fq:
            continue
        rel, qual = fq.split(":")
        path = os.path.join(SRC, rel)
        tree = ast.parse(open(path).read())
        fn = functions(tree).get(qual)
        if fn is None:
            continue
        f = Finder()
        f.visit(fn)
        missing = set(info.get("missing_lines", []))
        for idx, (node, kind) in enumerate(f.sites):
            if getattr(node, "lineno", 0) in missing:
                continue
            pool.append({"file": rel, "func": qual, "site": idx, "kind": kind, "line": node.lineno, "checks": info["checks"]})
    return pool


def make_mutant(m, scratch):
    path = os.path.join(scratch, "src", "ginjax", m["file"])
    src = open(path).read()
    tree = ast.parse(src)
    fn = functions(tree)[m["func"]]
    f = Finder()
    f.visit(fn)
    node, kind = f.sites[m["site"]]
    before = ast.unparse(node) if not isinstance(node, ast.Constant) else repr(node.value)
    line_src = src.splitlines()[node.lineno - 1].strip()
    desc = mutate(node, kind, random.Random(m["site"] * 7919 + args.seed))
    tree = Replace(node, kind).visit(tree)
    ast.fix_missing_locations(tree)
    open(path, "w").write(ast.unparse(tree) + "\n")
    return {"desc": desc, "before": before[:120], "line_src": line_src[:200]}


def run_one(m):
    scratch = tempfile.mkdtemp(prefix="ginjax_mut_", dir="/tmp")
    outd = tempfile.mkdtemp(prefix="vmon_out_", dir="/tmp")
    res = dict(m)
    try:
        subprocess.run(["rsync", "-a", "--exclude", ".git", "/repo/", scratch + "/"], check=True)
        res.update(make_mutant(m, scratch))
        env0 = {**os.environ, "VMON_REPO": scratch, "VMON_OUT": outd, "JAX_PLATFORMS": "cpu"}
        r = subprocess.run(["/venv/bin/python", "-c", "import ginjax.geometric, ginjax.ml, ginjax.models"], env={**env0, "PYTHONPATH": scratch + "/src"}, capture_output=True, text=True)
        if r.returncode != 0:
            res["verdict"] = "does-not-import"
            return res
        checks = sorted(m["checks"], key=ORDER.index)[: args.max_checks]
        res["ran"] = {}
        for c in checks:
            stop = os.path.join(outd, f"stop_{c}")
            t0 = time.time()
            r = subprocess.run(["./check", c, "quick"], cwd=VERIF, env={**env0, "VMON_FAILFAST": stop}, capture_output=True, text=True)
            mech = re.search(r"mechanism=([^:]+):", r.stdout)
            res["ran"][c] = {"exit": r.returncode, "mechanism": mech.group(1) if mech else None, "wall": round(time.time() - t0)}
            if r.returncode == 1:
                break
        res["verdict"] = "caught" if any(v["exit"] == 1 for v in res["ran"].values()) else ("inconclusive" if any(v["exit"] == 2 for v in res["ran"].values()) else "survived")
    except Exception as e:  # noqa: BLE001
        res["verdict"] = f"tool-error: {e}"
    finally:
        shutil.rmtree(scratch, ignore_errors=True)
        shutil.rmtree(outd, ignore_errors=True)
    return res


def main():
    rnd = random.Random(args.seed)
    pool = build_pool(rnd)
    by_func = {}
    for m in pool:
        by_func.setdefault((m["file"], m["func"]), []).append(m)
    # stratified: round-robin over functions so that no big function dominates
    funcs = list(by_func)
    rnd.shuffle(funcs)
    for v in by_func.values():
        rnd.shuffle(v)
    chosen = []
    while len(chosen) < args.n and any(by_func.values()):
        for fk in funcs:
            if by_func[fk] and len(chosen) < args.n:
                chosen.append(by_func[fk].pop())
    print(f"pool: {len(pool)} sites in {len(funcs)} functions; running {len(chosen)} mutants, {args.j} at a time", flush=True)
    results = json.load(open(args.out)) if os.path.exists(args.out) else {"mutants": []}
    done = {(r["file"], r["func"], r["site"]) for r in results["mutants"]}
    chosen = [m for m in chosen if (m["file"], m["func"], m["site"]) not in done]
    with cf.ThreadPoolExecutor(args.j) as ex:
        for res in ex.map(run_one, chosen):
            results["mutants"].append(res)
            print(f"{res['verdict']:12s} {res['file']}:{res['func']}:{res['line']} [{res.get('kind')}] {res.get('desc')}  | {res.get('line_src', '')[:90]} | {res.get('ran')}", flush=True)
            summ = {}
            for r in results["mutants"]:
                summ[r["verdict"]] = summ.get(r["verdict"], 0) + 1
            results["summary"] = summ
            json.dump(results, open(args.out, "w"), indent=1)
    print(results.get("summary"))


if __name__ == "__main__":
    main()
