#!/usr/bin/env python3
"""tools/seed_meta.py <results-file> <round-label> <origin-text>: writes seeded/<name>/meta.json for every line
'<name> demo_clean=<x> demo_mut=<y> | Cxx exit=<e> mechanism=...' of the results file that has no meta.json yet.
'change' and 'needs_to_manifest' are taken from the sub-agent's README (title / the section whose heading contains 'need')."""
import json, os, re, sys

VERIF = os.path.dirname(os.path.dirname(os.path.abspath(__file__)))
res, label, origin = sys.argv[1:4]
extra = json.load(open(sys.argv[4])) if len(sys.argv) > 4 else {}


def section(text, pat, limit=700):
    lines = text.splitlines()
    for i, l in enumerate(lines):
        if l.startswith("#") and re.search(pat, l, re.I):
            body = []
            for m in lines[i + 1:]:
                if m.startswith("#"):
                    break
                body.append(m.strip())
            return re.sub(r"\s+", " ", " ".join(body)).strip()[:limit]
    return ""


for line in open(res):
    m = re.match(r"(C\d\d\S+) demo_clean=(\d+) demo_mut=(\d+) \|(.*)", line.strip())
    if not m:
        continue
    name, dc, dm, rest = m.groups()
    d = os.path.join(VERIF, "seeded", name)
    if os.path.exists(os.path.join(d, "meta.json")) and name not in extra.get("_force", []):
        continue
    readme = open(os.path.join(d, "README.agent.md")).read() if os.path.exists(os.path.join(d, "README.agent.md")) else ""
    title = next((l.lstrip("# ").strip() for l in readme.splitlines() if l.startswith("#")), name)
    checks = {}
    for part in rest.split("|"):
        mm = re.match(r"\s*(C\d\d) exit=(\d+)\s*(.*)", part)
        if mm:
            c, e, mech = mm.groups()
            mech = re.sub(r"mechanism=", "", mech).split(":")[0].strip()
            checks[f"{c} quick"] = (f"first run: exit 1 ({mech})" if e == "1" else f"first run: exit {e} (MISSED)")
    for c, text in extra.get(name, {}).get("checks", {}).items():
        checks[c] = (checks.get(c, "") + "; " + text).lstrip("; ")
    meta = {
        "id": name, "property": name[:3], "change": title + " — " + section(readme, r"change|what", 500),
        "needs_to_manifest": section(readme, r"need|manifest") or "see README.agent.md",
        "checks": checks, "origin": origin,
        "confirmed": {"demo_unchanged_tree": f"exit {dc}", "demo_changed_tree": f"exit {dm}",
                      "tests_with_change": extra.get("_tests_text", "sub-agent: whole suite, unedited: 106 passed (see README.agent.md)"),
                      "how": f"scratch copy of /repo + patch.diff outside /repo and /verif; demo.py on both trees; ./check <Cxx> quick with VMON_REPO=<copy> ({label})"},
    }
    if name in extra and extra[name].get("strengthening"):
        meta["strengthening"] = extra[name]["strengthening"]
    json.dump(meta, open(os.path.join(d, "meta.json"), "w"), indent=1)
    print("wrote", name, checks)
