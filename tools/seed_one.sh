#!/bin/bash
# tools/seed_one.sh <seed-name> <Cxx> [Cxx...]: runs the named quick checks against a scratch copy of /repo carrying seeded/<seed-name>/patch.diff
set -u
cd "$(dirname "$0")/.."
NAME=$1; shift
SCR=$(mktemp -d /tmp/ginjax_seed_XXXX); OUTD=$(mktemp -d /tmp/vmon_out_XXXX)
rsync -a --exclude .git /repo/ "$SCR/"
(cd "$SCR" && patch -p1 -s < /verif/seeded/$NAME/patch.diff) || { echo "PATCH FAILED"; rm -rf "$SCR" "$OUTD"; exit 3; }
for c in "$@"; do
  VMON_REPO=$SCR VMON_OUT=$OUTD VMON_FAILFAST=$OUTD/stop_$c ./check "$c" quick > "$OUTD/$c.log" 2>&1
  echo "== $NAME: $c quick exit=$? $(grep -m1 -E 'mechanism=' "$OUTD/$c.log" | cut -c1-300)"
done
rm -rf "$SCR" "$OUTD"
