#!/venv/bin/python
"""Development aid (not a registered check): runs selected cases of one check in one worker process and prints the verdicts.
Usage: tools/runcases.py Cxx quick|thorough kind=<kind> | i,j,k | a-b     [VMON_REPO=<tree>]"""
import json, os, subprocess, sys, tempfile

VERIF = os.path.dirname(os.path.dirname(os.path.abspath(__file__)))
sys.path.insert(0, VERIF)
from vmon import core

prop, tier, sel = sys.argv[1], sys.argv[2], sys.argv[3]
seed = int(os.environ.get("VERIF_SEED", "0"))
mod = core.load_check(prop)
cases = mod.cases(tier, seed)
for i, c in enumerate(cases):
    c["i"] = i
if sel.startswith("kind="):
    pick = [c for c in cases if c.get("kind") == sel[5:]]
elif "-" in sel:
    a, b = sel.split("-")
    pick = cases[int(a):int(b) + 1]
else:
    pick = [cases[int(j)] for j in sel.split(",")]
tmp = tempfile.mkdtemp(prefix="vmon_rc_", dir="/tmp")
json.dump({"prop": prop, "tier": tier, "seed": seed, "cases": pick}, open(tmp + "/in.json", "w"))
env = {**os.environ, "PYTHONPATH": os.path.join(core.REPO, "src") + ":" + VERIF, "JAX_PLATFORMS": "cpu", "MPLBACKEND": "Agg", "WANDB_MODE": "disabled", "PYTHONHASHSEED": "0"}
r = subprocess.run([core.PY, "-m", "vmon.worker", tmp + "/in.json", tmp + "/out.jsonl"], cwd=VERIF, env=env, capture_output=True, text=True)
print(r.stdout[-2000:], r.stderr[-3000:] if r.returncode else "")
for l in open(tmp + "/out.jsonl"):
    d = json.loads(l)
    if d.get("meta"):
        print("META", {k: v for k, v in d.items() if k in ("fatal", "ginjax_from")})
        continue
    print(d.get("i"), d.get("status"), "nontrivial" if d.get("nontrivial") else "trivial", d.get("t"), (d.get("why") or "")[:600], [(v["mechanism"], v["msg"][:500]) for v in d.get("viol", [])])
import shutil; shutil.rmtree(tmp, ignore_errors=True)
