#!/bin/bash
# tools/mutate.sh <patch.diff|--revert <commit>> <tier> <Cxx> [Cxx ...]
# Self-validation helper: applies a change to a scratch copy of /repo (outside /repo and /verif), runs the
# named checks against it (VMON_REPO) with evidence/replays redirected (VMON_OUT), removes the copy.
set -u
cd "$(dirname "$0")/.."
SCR=$(mktemp -d /tmp/ginjax_scratch_XXXX)
OUTD=$(mktemp -d /tmp/vmon_out_XXXX)
rsync -a --exclude .git /repo/ "$SCR/"
if [ "$1" = "--revert" ]; then
  (cd /repo && git show "$2" -- src) | (cd "$SCR" && patch -R -p1 -s) || { echo "revert failed"; rm -rf "$SCR" "$OUTD"; exit 3; }
  shift 2
else
  (cd "$SCR" && patch -p1 -s < "$1") || { echo "patch failed"; rm -rf "$SCR" "$OUTD"; exit 3; }
  shift
fi
TIER=$1; shift
for c in "$@"; do
  VMON_REPO=$SCR VMON_OUT=$OUTD ./check "$c" "$TIER" > "$OUTD/$c.log" 2>&1
  rc=$?
  echo "== $c exit=$rc $(grep -m1 -E 'mechanism=' "$OUTD/$c.log" | cut -c1-230)"
done
rm -rf "$SCR" "$OUTD"
