#!/usr/bin/env python3
"""Runs the repository's whole test-suite on a scratch copy of /repo carrying each seeded change (sequentially) and
records the result in seeded/<name>/meta.json under confirmed.full_suite. Usage: tools/seed_fullsuite.py [name ...]"""
import glob, json, os, re, shutil, subprocess, sys, tempfile

VERIF = os.path.dirname(os.path.dirname(os.path.abspath(__file__)))
names = sys.argv[1:] or sorted(os.path.basename(os.path.dirname(p)) for p in glob.glob(os.path.join(VERIF, "seeded", "*", "meta.json")))
for name in names:
    mp = os.path.join(VERIF, "seeded", name, "meta.json")
    meta = json.load(open(mp))
    if meta.get("confirmed", {}).get("full_suite"):
        continue
    scr = tempfile.mkdtemp(prefix="ginjax_fs_", dir="/tmp")
    try:
        subprocess.run(["rsync", "-a", "--exclude", ".git", "/repo/", scr + "/"], check=True)
        r = subprocess.run(["patch", "-p1", "-s", "-i", os.path.join(VERIF, "seeded", name, "patch.diff")], cwd=scr)
        if r.returncode != 0:
            res = "patch did not apply"
        else:
            env = {**os.environ, "PYTHONPATH": scr + "/src", "JAX_PLATFORMS": "cpu", "MPLBACKEND": "Agg"}
            r = subprocess.run(["/venv/bin/python", "-m", "pytest", "-q", "-p", "no:cacheprovider", "-n", "5", "--timeout=1800"], cwd=scr, env=env, capture_output=True, text=True)
            tail = [l for l in r.stdout.strip().splitlines() if l.strip()][-1] if r.stdout.strip() else ""
            res = f"exit {r.returncode}: {tail}"
        meta.setdefault("confirmed", {})["full_suite"] = res
        json.dump(meta, open(mp, "w"), indent=1)
        print(name, res, flush=True)
    finally:
        shutil.rmtree(scr, ignore_errors=True)
